"""Extractor for the glue between a Node and its FileSystem (property C15, Gen/FileSystemNode.lean).  Pure `ast`; strict.

What it reads
  * every statement of class `Node` (hardware/base.py) and of every class under hardware/nodes/ that mentions
    `self.file_system`, with the chain of conditions it sits under (`if`, `else`, `for`, and the negation of an earlier
    `if …: return` of the same block): `nodeSites`;
  * the chain above a node: the statements of `Simulation.pre_timestep / apply_timestep / describe_state` that mention
    `self.network` and of `Network.pre_timestep / apply_timestep / describe_state` that mention the nodes: `chainSites`;
  * from those, the POWER guard of each glue call as a Lean function of `on` (= `operating_state == NodeOperatingState.ON`):
    `glue : Glue`.  Conditions that do not mention `operating_state` stay in the site tables only (compared verbatim); a
    condition that mentions `operating_state` in any other form than `== / != NodeOperatingState.ON` raises;
  * whether `Node.apply_timestep` tests the power state for the file system AFTER its last assignment to it (so that the
    flag the model receives with `applyTimestep` is the tested one): `tickTestsFinalState`;
  * the validator of the `file_system` and `os` request routes and the body of `_NodeIsOnValidator.__call__`;
  * classes under hardware/nodes/ that override `pre_timestep` / `apply_timestep`: `tickOverrides`;
  * every statement anywhere under src/primaite that writes `num_file_creations` / `num_file_deletions`: `counterWriters`.
"""
import ast
from typing import List, Optional, Tuple

from harness.extract.filesystem import lean_str
from harness.extract.util import class_def, find_method, parse
from harness.lib.core import SRC

GEN_NAME = "FileSystemNode"

BASE = "simulator/network/hardware/base.py"
NODES_DIR = "simulator/network/hardware/nodes"
SIM = "simulator/sim_container.py"
NET = "simulator/network/container.py"
ON = "NodeOperatingState.ON"

Site = Tuple[str, str, List[str]]


def _u(n: ast.AST) -> str:
    return ast.unparse(n)


def _ends_in_return(body: List[ast.stmt]) -> bool:
    return bool(body) and isinstance(body[-1], (ast.Return, ast.Raise, ast.Continue, ast.Break))


def _compound(st: ast.stmt) -> bool:
    return isinstance(st, (ast.If, ast.For, ast.While, ast.With, ast.Try, ast.FunctionDef, ast.ClassDef, ast.AsyncFunctionDef, ast.Match))


def _entry(st: ast.stmt, needle: str) -> str:
    """The statement, or — for a dict literal entry — just that entry."""
    for node in ast.walk(st):
        if isinstance(node, ast.Dict):
            for k, v in zip(node.keys, node.values):
                if k is not None and needle in _u(v) and not any(isinstance(x, ast.Dict) for x in ast.walk(v)):
                    return f"dict-entry {_u(k)}: {_u(v)}"
    return _u(st)


def sites(body: List[ast.stmt], needle: str, chain: Optional[List[str]] = None) -> List[Tuple[str, List[str]]]:
    """(statement, chain of enclosing conditions) for every simple statement below `body` that mentions `needle`."""
    chain = list(chain or [])
    out: List[Tuple[str, List[str]]] = []
    for st in body:
        if isinstance(st, ast.Expr) and isinstance(st.value, ast.Constant):
            continue
        if isinstance(st, ast.If):
            t = _u(st.test)
            if needle in t:  # the test itself touches it
                out.append((f"test {t}", chain))
            out += sites(st.body, needle, chain + [f"if {t}"])
            out += sites(st.orelse, needle, chain + [f"else {t}"])
            if _ends_in_return(st.body) and not st.orelse:
                chain = chain + [f"after-return-if {t}"]
            continue
        if isinstance(st, ast.For):
            out += sites(st.body, needle, chain + [f"for {_u(st.target)} in {_u(st.iter)}"])
            if st.orelse:
                raise ValueError("for/else in a glue method")
            continue
        if isinstance(st, (ast.FunctionDef, ast.ClassDef)):
            if needle in _u(st):
                out += sites(st.body, needle, chain + [f"def {st.name}"])
            continue
        if _compound(st):
            if needle in _u(st):
                raise ValueError(f"unrecognised compound statement around {needle}: {_u(st)[:80]}")
            continue
        if needle in _u(st):
            out.append((_entry(st, needle), chain))
    return out


def power_guard(chain: List[str]) -> str:
    """The conjunction of the chain's conditions on `operating_state`, as a Lean Bool expression in `on`."""
    terms = []
    for c in chain:
        if "operating_state" not in c:
            continue
        kind, _, test = c.partition(" ")
        pos = {f"self.operating_state == {ON}": "on", f"self.operating_state != {ON}": "(!on)",
               f"self.operating_state is {ON}": "on", f"self.operating_state is not {ON}": "(!on)"}.get(test)
        if pos is None:
            raise ValueError(f"unrecognised power condition `{c}`")
        neg = "(!on)" if pos == "on" else "on"
        terms.append(pos if kind == "if" else neg)  # `else` and `after-return-if` negate
    return " && ".join(["true"] + terms)


def fun(body: str) -> str:
    return f"fun {'on' if 'on' in body.replace('&&', '').split() or '(!on)' in body else '_'} => {body}"


def _one(rows: List[Tuple[str, List[str]]], prefix: str, where: str) -> List[str]:
    hit = [ch for stmt, ch in rows if stmt.startswith(prefix)]
    if len(hit) != 1:
        raise ValueError(f"{where}: expected exactly one `{prefix}…`, found {len(hit)}")
    return hit[0]


def _route_validator(irm: ast.FunctionDef, key: str) -> str:
    """validator expression of `rm.add_request(key, RequestType(func=…, validator=…))`."""
    for node in ast.walk(irm):
        if (isinstance(node, ast.Call) and isinstance(node.func, ast.Attribute) and node.func.attr == "add_request"
                and _u(node.func.value) == "rm" and node.args and isinstance(node.args[0], ast.Constant) and node.args[0].value == key):
            rt = node.args[1]
            val = next((k.value for k in rt.keywords if k.arg == "validator"), None)
            return _u(val) if val is not None else ""
    raise ValueError(f"route {key} not found")


def _lean_sites(name: str, doc: str, rows: List[Site]) -> List[str]:
    L = [f"/-- {doc} -/", f"def {name} : List (String × String × List String) := ["]
    L.append(",\n".join(f"  ({lean_str(a)}, {lean_str(b)}, [{', '.join(lean_str(c) for c in ch)}])" for a, b, ch in rows))
    L.append("]")
    return L


def emit() -> str:
    base = parse(BASE)
    node = class_def(base, "Node")
    needle = "self.file_system"
    node_rows: List[Site] = []
    per_method = {}
    for fn in node.body:
        if isinstance(fn, ast.FunctionDef) and needle in _u(fn):
            rows = sites(fn.body, needle)
            per_method[fn.name] = rows
            node_rows += [(f"Node.{fn.name}", stmt, ch) for stmt, ch in rows]
    # classes under hardware/nodes/
    overrides: List[str] = []
    for path in sorted((SRC / NODES_DIR).rglob("*.py")):
        rel = str(path.relative_to(SRC))
        for cls in [n for n in ast.walk(ast.parse(path.read_text())) if isinstance(n, ast.ClassDef)]:
            for fn in cls.body:
                if not isinstance(fn, ast.FunctionDef):
                    continue
                if fn.name in ("pre_timestep", "apply_timestep") and any(
                        _u(b).split(".")[-1] in ("Node", "HostNode", "NetworkNode", "Router", "Switch", "Computer", "Server", "Firewall")
                        for b in cls.bases):
                    overrides.append(f"{rel}:{cls.name}.{fn.name}")
                if needle in _u(fn):
                    node_rows += [(f"{cls.name}.{fn.name}", stmt, ch) for stmt, ch in sites(fn.body, needle)]

    # the glue guards
    pre = power_guard(_one(per_method.get("pre_timestep", []), "self.file_system.pre_timestep(", "Node.pre_timestep"))
    tick_chain = _one(per_method.get("apply_timestep", []), "self.file_system.apply_timestep(", "Node.apply_timestep")
    scan_chain = _one(per_method.get("apply_timestep", []), "self.file_system.scan(", "Node.apply_timestep")
    desc = power_guard(_one(per_method.get("describe_state", []), "dict-entry 'file_system': self.file_system.describe_state()", "Node.describe_state"))
    irm = find_method(node, "_init_request_manager")
    val = _route_validator(irm, "file_system")
    os_val = _route_validator(irm, "os")
    binds = {_u(st.targets[0]): _u(st.value) for st in irm.body if isinstance(st, ast.Assign) and "Validator" in _u(st.value)}
    is_on_call = find_method(next(n for n in node.body if isinstance(n, ast.ClassDef) and n.name == "_NodeIsOnValidator"), "__call__")
    is_on_body = "; ".join(_u(st) for st in is_on_call.body if not (isinstance(st, ast.Expr) and isinstance(st.value, ast.Constant)))

    def route_guard(v: str) -> str:
        if v == "":
            return "true"
        if binds.get(v) == "Node._NodeIsOnValidator(node=self)" and is_on_body == f"return self.node.operating_state == {ON}":
            return "true && on"
        raise ValueError(f"unrecognised validator `{v}` = {binds.get(v)} / {is_on_body}")
    request = route_guard(val)

    # Node.apply_timestep: the power test that guards the file system is a top-level statement, and no assignment to
    # operating_state / call of power_on, power_off, reset follows it or sits inside it
    at = find_method(node, "apply_timestep")
    top = [st for st in at.body if not (isinstance(st, ast.Expr) and isinstance(st.value, ast.Constant))]
    idx = [i for i, st in enumerate(top) if isinstance(st, ast.If) and needle in _u(st)]
    def changes_power(st: ast.stmt) -> bool:
        for n in ast.walk(st):
            if isinstance(n, (ast.Assign, ast.AugAssign, ast.AnnAssign)):
                tgts = n.targets if isinstance(n, ast.Assign) else [n.target]
                if any(_u(t) == "self.operating_state" for t in tgts):
                    return True
            if isinstance(n, ast.Call) and _u(n.func) in ("self.power_on", "self.power_off", "self.reset"):
                return True
        return False
    final = (len(idx) == 1 and _u(top[idx[0]].test) == f"self.operating_state == {ON}"
             and not any(changes_power(st) for st in top[idx[0]:]))

    # the chain above the node
    chain_rows: List[Site] = []
    sim_c, net_c = class_def(parse(SIM), "Simulation"), class_def(parse(NET), "Network")
    for m in ("pre_timestep", "apply_timestep", "describe_state"):
        chain_rows += [(f"Simulation.{m}", stmt, ch) for stmt, ch in sites(find_method(sim_c, m).body, "self.network")]
    for m, nd in (("pre_timestep", "node.pre_timestep"), ("apply_timestep", "self.nodes"), ("describe_state", "node.describe_state")):
        rows = [(stmt, ch) for stmt, ch in sites(find_method(net_c, m).body, nd) if ".show(" not in stmt]
        chain_rows += [(f"Network.{m}", stmt, ch) for stmt, ch in rows]

    # writers of the counters
    writers: List[Tuple[str, str]] = []
    for path in sorted((SRC).rglob("*.py")):
        text = path.read_text()
        if "num_file_creations" not in text and "num_file_deletions" not in text:
            continue
        rel = str(path.relative_to(SRC))
        tree = ast.parse(text)
        for cls in [n for n in ast.walk(tree) if isinstance(n, ast.ClassDef)]:
            for fn in [n for n in cls.body if isinstance(n, ast.FunctionDef)]:
                for st in ast.walk(fn):
                    if isinstance(st, (ast.Assign, ast.AugAssign, ast.AnnAssign)):
                        tgt = _u(st.targets[0]) if isinstance(st, ast.Assign) else _u(st.target)
                        if tgt.endswith(("num_file_creations", "num_file_deletions")):
                            writers.append((f"{rel}:{cls.name}.{fn.name}", _u(st)))

    # the table says WHO writes the counters (a set per method): within one method the rows are sorted by text, so that swapping two
    # independent writes (round 7, harmless rewrite H7 of pre_timestep) is not reported; the ORDER inside the file-system methods is
    # covered by their translation (fsxlate) or their textual snapshot (move_file)
    keys = list(dict.fromkeys(k for k, _ in writers))
    writers = [(k, t) for k in keys for t in sorted(t2 for k2, t2 in writers if k2 == k)]

    L = ["import PrimaiteModel.Model.FileSystemNode", "namespace Primaite.Gen.FileSystemNode", "open Primaite.FileSystem", ""]
    L += _lean_sites("nodeSites", "every statement of `Node` and of the classes under hardware/nodes/ that mentions `self.file_system`: "
                     "(method, statement, enclosing conditions outermost first)", node_rows)
    L += _lean_sites("chainSites", "the calls above a node: Simulation → Network → every node", chain_rows)
    L += ["/-- the power guard of every glue call, as a function of `operating_state == NodeOperatingState.ON` -/",
          "def glue : Glue :=",
          f"  {{ pre := {fun(pre)},",
          f"    tick := {fun(power_guard(tick_chain))},",
          f"    scan := {fun(power_guard(scan_chain))},",
          f"    request := {fun(request)},",
          f"    describe := {fun(desc)} }}",
          "/-- the conditions (other than the power test) under which `apply_timestep` reaches `file_system.scan(instant_scan=True)` -/",
          "def scanConditions : List String := [" + ", ".join(lean_str(c) for c in scan_chain if "operating_state" not in c) + "]",
          "/-- `Node.apply_timestep` tests the power state for the file system after its last change of it -/",
          f"def tickTestsFinalState : Bool := {'true' if final else 'false'}",
          "/-- validator of the `os` route (the node scan request) -/",
          f"def osRouteGuard : Bool → Bool := {fun(route_guard(os_val))}",
          "/-- node classes that override `pre_timestep` / `apply_timestep` -/",
          "def tickOverrides : List String := [" + ", ".join(lean_str(o) for o in overrides) + "]",
          "/-- every statement under src/primaite that writes one of the per-tick counters: (file:Class.method, statement) -/",
          "def counterWriters : List (String × String) := [",
          ",\n".join(f"  ({lean_str(a)}, {lean_str(b)})" for a, b in writers),
          "]", "", "end Primaite.Gen.FileSystemNode", ""]
    return "\n".join(L)
