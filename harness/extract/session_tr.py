"""Extractor for C16 (round 7, second shift): the decision methods of the user / session managers TRANSLATED statement by statement
into Lean functions (a small symbolic execution: every `if` is followed into both arms, each continued with the statements after
it; local Boolean variables and aliases are tracked; designated statements are recorded as effects).  `Props/C16Tr.lean` proves each
function equal to what the model does, for ALL inputs.  A statement / test outside the vocabulary gives
`<default> /- not translated: … -/` (the obligation fails, the rig still runs and searches for a failing input).
Pure `ast`; never imports the code under test."""
import ast
from typing import Dict, List

from harness.extract.session import BASE, SVC, TERM, _body, _is_log, _lean_list, _lean_pairs
from harness.extract.util import class_def, find_method, parse

GEN_NAME = "SessionTr"
SOFT = "simulator/system/software.py"


class NotTranslated(ValueError):
    pass


_CMPS = {ast.LtE: "≤", ast.Lt: "<", ast.GtE: "≥", ast.Gt: ">", ast.Eq: "=", ast.NotEq: "≠"}


def _arith(e: ast.AST, terms: Dict[str, str]) -> str:
    txt = ast.unparse(e)
    if txt in terms:
        return terms[txt]
    if isinstance(e, ast.BinOp) and isinstance(e.op, ast.Add):
        return f"({_arith(e.left, terms)} + {_arith(e.right, terms)})"
    if isinstance(e, ast.Constant) and isinstance(e.value, int) and not isinstance(e.value, bool) and e.value >= 0:
        return str(e.value)
    raise NotTranslated(f"term outside the vocabulary: {txt}")


class _Subst(ast.NodeTransformer):
    def __init__(self, alias):
        self.alias = alias

    def visit_Name(self, node):
        return self.alias.get(node.id, node)


def _expr(e: ast.AST, atoms: Dict[str, str], terms: Dict[str, str], vals: Dict[str, str], alias=None) -> str:
    """a Python test -> a Lean Bool expression (truthiness of the tracked local variables included)"""
    if alias:
        e = _Subst(alias).visit(ast.parse(ast.unparse(e), mode="eval").body)
    if isinstance(e, ast.BoolOp):
        op = " || " if isinstance(e.op, ast.Or) else " && "
        return "(" + op.join(_expr(v, atoms, terms, vals) for v in e.values) + ")"
    if isinstance(e, ast.UnaryOp) and isinstance(e.op, ast.Not):
        return "(!" + _expr(e.operand, atoms, terms, vals) + ")"
    if isinstance(e, ast.Constant) and e.value in (True, False, None) and not isinstance(e.value, int) or \
            isinstance(e, ast.Constant) and isinstance(e.value, bool):
        return "true" if e.value else "false"
    if isinstance(e, ast.Name) and e.id in vals:
        return vals[e.id]
    txt = ast.unparse(e)
    if txt in atoms:
        return atoms[txt]
    if isinstance(e, ast.Compare) and len(e.ops) == 1 and type(e.ops[0]) in _CMPS:
        a, b = _arith(e.left, terms), _arith(e.comparators[0], terms)
        return f"decide ({a} {_CMPS[type(e.ops[0])]} {b})"
    if txt in terms or isinstance(e, ast.BinOp):      # truthiness of a number: 0 is false
        return f"decide ({_arith(e, terms)} ≠ 0)"
    raise NotTranslated(f"test outside the vocabulary: {txt}")


class Cfg:
    def __init__(self, atoms, terms=None, defs=None, effects=None, skip=(), leaf=None):
        self.atoms, self.terms, self.defs, self.effects, self.skip = atoms, terms or {}, defs or {}, effects or {}, tuple(skip)
        self.leaf = leaf


def _lookup(table: Dict[str, str], txt: str):
    for k, v in table.items():
        if txt == k or (k.endswith("…") and txt.startswith(k[:-1])):
            return v
    return None


def _sym(stmts: List[ast.stmt], vals: Dict[str, str], eff: frozenset, cfg: Cfg) -> str:
    for i, st in enumerate(stmts):
        rest = list(stmts[i + 1:])
        if _is_log(st) or isinstance(st, ast.Pass):
            continue
        txt = ast.unparse(st)
        if isinstance(st, ast.Return):
            return cfg.leaf(st.value, vals, eff)
        if isinstance(st, ast.If):
            t = _expr(st.test, cfg.atoms, cfg.terms, vals)
            a = _sym(list(st.body) + rest, dict(vals), eff, cfg)
            b = _sym(list(st.orelse) + rest, dict(vals), eff, cfg)
            return a if a == b else f"(if {t} then {a} else {b})"
        e = _lookup(cfg.effects, txt)
        if e is not None:
            eff = eff | {e}
            continue
        if isinstance(st, (ast.Assign, ast.AnnAssign)) and st.value is not None:
            tg = st.targets[0] if isinstance(st, ast.Assign) and len(st.targets) == 1 else getattr(st, "target", None)
            if isinstance(tg, ast.Name):
                d = _lookup(cfg.defs, ast.unparse(st.value))
                if d is not None:
                    vals = dict(vals, **{tg.id: d})
                    continue
                if isinstance(st.value, ast.Constant) and (st.value.value is None or isinstance(st.value.value, bool)):
                    vals = dict(vals, **{tg.id: "true" if st.value.value else "false"})
                    continue
        if _lookup({k: "" for k in cfg.skip}, txt) is not None:
            continue
        raise NotTranslated(f"statement outside the vocabulary: {txt}")
    return cfg.leaf(None, vals, eff)


def _bool_leaf(cfg_ref, effects_order=()):
    def leaf(value, vals, eff):
        r = "false" if value is None else _expr(value, cfg_ref[0].atoms, cfg_ref[0].terms, vals)
        if not effects_order:
            return r
        return "(" + ", ".join([r] + ["true" if x in eff else "false" for x in effects_order]) + ")"
    return leaf


def _translate(fn: ast.FunctionDef, default: str, effects_order=(), **kw) -> str:
    ref = []
    cfg = Cfg(leaf=_bool_leaf(ref, effects_order), **kw)
    ref.append(cfg)
    try:
        return _sym(_body(fn), {}, frozenset(), cfg)
    except NotTranslated as e:
        return f"{default} /- not translated: {str(e)[:100].replace('-/', '')} -/"


def _translate_codes(fn: ast.FunctionDef, codes: Dict[str, str], default: str, **kw) -> str:
    """like `_translate`, for a method whose paths end in one of several calls: every `return <x>` becomes the code of <x>"""
    def leaf(value, vals, eff):
        c = _lookup(codes, "None" if value is None else ast.unparse(value))
        if c is None:
            raise NotTranslated(f"return outside the vocabulary: {ast.unparse(value)}")
        return c
    try:
        return _sym(_body(fn), {}, frozenset(), Cfg(leaf=leaf, **kw))
    except NotTranslated as e:
        return f"{default} /- not translated: {str(e)[:100].replace('-/', '')} -/"


# ------------------------------------------------------------------------------------------------------ pre_timestep
_STATE_ATOMS = {
    "self.operating_state != ServiceOperatingState.RUNNING": "(!running)",
    "self.operating_state == ServiceOperatingState.RUNNING": "running",
    "self.operating_state is not ServiceOperatingState.RUNNING": "(!running)",
    "self.operating_state is ServiceOperatingState.RUNNING": "running",
    "self._can_perform_action()": "(nodeOn && running)",
    "self.software_manager.node.operating_state != NodeOperatingState.ON": "(!nodeOn)",
    "self.software_manager.node.operating_state == NodeOperatingState.ON": "nodeOn",
    "self.parent.operating_state != NodeOperatingState.ON": "(!nodeOn)",
    "self.parent.operating_state == NodeOperatingState.ON": "nodeOn",
}


def _flatten_if(st: ast.If):
    """`if a: if b: BODY` (no else anywhere) -> ([a, b], BODY)"""
    conds = []
    while True:
        if st.orelse:
            raise NotTranslated(f"`else` in a time-out decision: {ast.unparse(st.test)}")
        conds += list(st.test.values) if isinstance(st.test, ast.BoolOp) and isinstance(st.test.op, ast.And) else [st.test]
        body = [x for x in st.body if not _is_log(x)]
        if len(body) == 1 and isinstance(body[0], ast.If):
            st = body[0]
            continue
        return conds, body


_LOC_PRESENT = ("self.local_session", "self.local_session is not None", "self.local_session != None", "self.local_user_logged_in")


def _pre(stmts: List[ast.stmt], acc, lst, notes: List[str], tests: Dict[str, str]) -> str:
    for i, st in enumerate(stmts):
        rest = list(stmts[i + 1:])
        if _is_log(st):
            continue
        txt = ast.unparse(st)
        if txt == "self.current_timestep = timestep":
            notes.append("sets-current")
            continue
        if isinstance(st, (ast.Assign, ast.AnnAssign)) and st.value is not None and ast.unparse(st.value) in ("[]", "list()"):
            tg = st.targets[0] if isinstance(st, ast.Assign) else st.target
            if isinstance(tg, ast.Name):
                lst, acc = tg.id, []
                continue
        if isinstance(st, ast.Return) and (st.value is None or ast.unparse(st.value) == "None"):
            return "[]"                      # left before anything was handed to _timeout_session
        if isinstance(st, ast.If):
            try:
                t = _expr(st.test, _STATE_ATOMS, {}, {})
            except NotTranslated:
                t = None
            if t is not None:
                a = _pre(list(st.body) + rest, list(acc), lst, notes, tests)
                b = _pre(list(st.orelse) + rest, list(acc), lst, notes, tests)
                return a if a == b else f"(if {t} then {a} else {b})"
            conds, body = _flatten_if(st)
            if lst is None or [ast.unparse(x) for x in body] != [f"{lst}.append(self.local_session)"]:
                raise NotTranslated(f"statement outside the vocabulary: if {ast.unparse(st.test)}: …")
            if ast.unparse(conds[0]) not in _LOC_PRESENT:
                raise NotTranslated("the local decision does not start with `self.local_session`")
            terms = {"self.local_session.last_active_step": "last", "self.local_session_timeout_steps": "tmo", "timestep": "t"}
            cs = [_expr(c, _STATE_ATOMS, terms, {}) for c in conds[1:]] or ["true"]
            if "local" in tests:
                raise NotTranslated("two decisions about the local session")
            tests["local"] = " && ".join(cs)
            acc = acc + ["(match loc with | some s => if preTimestepLocalTest nodeOn running (lastL s) lto t then [Sum.inl s] else [] | none => [])"]
            continue
        if isinstance(st, ast.For) and not st.orelse:
            it = ast.unparse(st.iter)
            body = [x for x in st.body if not _is_log(x)]
            if lst is not None and it in (lst, f"list({lst})") and isinstance(st.target, ast.Name):
                if [ast.unparse(x) for x in body] != [f"self._timeout_session({st.target.id})"]:
                    raise NotTranslated(f"loop over {lst}: {'; '.join(ast.unparse(x) for x in body)}")
                if any(not _is_log(x) for x in rest):
                    raise NotTranslated("statements after the time-out loop")
                return "(" + " ++ ".join(acc or ["[]"]) + ")"
            keyed = it in ("self.remote_sessions", "self.remote_sessions.keys()", "list(self.remote_sessions)", "list(self.remote_sessions.keys())")
            valued = it in ("self.remote_sessions.values()", "list(self.remote_sessions.values())")
            if (keyed or valued) and isinstance(st.target, ast.Name) and lst is not None:
                var = st.target.id if valued else f"self.remote_sessions[{st.target.id}]"
                if keyed and body and isinstance(body[0], ast.Assign) and ast.unparse(body[0].value) == var \
                        and isinstance(body[0].targets[0], ast.Name):
                    var, body = body[0].targets[0].id, body[1:]
                if len(body) != 1 or not isinstance(body[0], ast.If):
                    raise NotTranslated(f"loop over the remote sessions: {'; '.join(ast.unparse(x) for x in body)}")
                conds, inner = _flatten_if(body[0])
                if [ast.unparse(x) for x in inner] != [f"{lst}.append({var})"]:
                    raise NotTranslated(f"loop over the remote sessions: {'; '.join(ast.unparse(x) for x in inner)}")
                terms = {f"{var}.last_active_step": "last", "self.remote_session_timeout_steps": "tmo", "timestep": "t"}
                cs = [_expr(c, _STATE_ATOMS, terms, {}) for c in conds]
                if "remote" in tests:
                    raise NotTranslated("two loops over the remote sessions")
                tests["remote"] = " && ".join(cs)
                acc = acc + ["((rem.filter (fun s => preTimestepRemoteTest nodeOn running (lastR s) rto t)).map Sum.inr)"]
                continue
        raise NotTranslated(f"statement outside the vocabulary: {txt.splitlines()[0]}")
    return "[]"


def emit() -> str:
    base = parse(BASE)
    usm = class_def(base, "UserSessionManager")
    um = class_def(base, "UserManager")
    term = class_def(parse(TERM), "Terminal")
    svc = class_def(parse(SVC), "Service")
    soft = class_def(parse(SOFT), "IOSoftware")

    notes: List[str] = []
    tests: Dict[str, str] = {}
    try:
        pre = _pre(_body(find_method(usm, "pre_timestep")), [], None, notes, tests)
    except NotTranslated as e:
        pre = f"[] /- not translated: {str(e)[:100].replace('-/', '')} -/"

    validate = _translate(find_method(usm, "validate_remote_session_uuid"), "false",
                          atoms={"remote_session_id in self.remote_sessions": "(rem.contains cid)",
                                 "remote_session_id in self.remote_sessions.keys()": "(rem.contains cid)"})
    check = _translate(find_method(term, "_check_client_connection"), "(false, false)", effects_order=("disc",),
                       atoms={"self.parent.user_session_manager.validate_remote_session_uuid(connection_id)": "(validateRemoteSessionUuid rem cid)",
                              "connection_id in self._connections": "(conns.contains cid)",
                              "connection_id not in self._connections": "(!conns.contains cid)"},
                       effects={"self._disconnect(connection_id)": "disc"})
    soft_can = _translate(find_method(soft, "_can_perform_action"), "false",
                          atoms={"self.software_manager": "installed",
                                 "self.software_manager.node.operating_state != NodeOperatingState.ON": "(!nodeOn)",
                                 "self.software_manager.node.operating_state == NodeOperatingState.ON": "nodeOn",
                                 "self.software_manager.node.operating_state is not NodeOperatingState.ON": "(!nodeOn)"})
    svc_can = _translate(find_method(svc, "_can_perform_action"), "false",
                         atoms={"super()._can_perform_action()": "(softwareCanPerformAction installed nodeOn)",
                                "self.operating_state is not ServiceOperatingState.RUNNING": "(!running)",
                                "self.operating_state != ServiceOperatingState.RUNNING": "(!running)",
                                "self.operating_state is ServiceOperatingState.RUNNING": "running",
                                "self.operating_state == ServiceOperatingState.RUNNING": "running"})
    auth = _translate(find_method(um, "authenticate_user"), "false",
                      atoms={"self._can_perform_action()": "can", "user.disabled": "disabled", "user.password == password": "pwOk",
                             "password == user.password": "pwOk", "user.password != password": "(!pwOk)", "user is None": "(!found)",
                             "user is not None": "found"},
                      defs={"self.users.get(username)": "found", "self.users.get(username, None)": "found"})
    limit = _translate(find_method(usm, "remote_session_limit_reached"), "false", atoms={},
                       terms={"len(self.remote_sessions)": "len", "self.max_remote_sessions": "mx"})
    login = _translate(find_method(usm, "_login"), "(false, false)", effects_order=("stored",),
                       atoms={"self._can_perform_action()": "can", "local": "isLocal", "self.local_session": "hasLoc",
                              "self.local_session is not None": "hasLoc", "self.local_session.user != user": "otherUser",
                              "self.local_session.user == user": "(!otherUser)", "self.remote_session_limit_reached": "limit",
                              "user is None": "(!auth)"},
                       defs={"self._user_manager.authenticate_user(username=username, password=password)": "auth",
                             "self._user_manager.authenticate_user(username, password)": "auth",
                             "self.local_session.uuid": "true", "remote_session.uuid": "true",
                             "RemoteUserSession.create(…": "true"},
                       effects={"self.remote_sessions[session_id] = remote_session": "stored",
                                "self.remote_sessions[remote_session.uuid] = remote_session": "stored"},
                       skip=("self.local_logout()", "self.local_session = UserSession.create(user=user, timestep=self.current_timestep)"))
    last_admin = _translate(find_method(um, "_is_last_admin"), "false",
                            atoms={"username in self.admins": "isAdmin"}, terms={"len(self.admins)": "nAdmins"})
    disable = _translate(find_method(um, "disable_user"), "(false, false)", effects_order=("disabled",),
                         atoms={"self._can_perform_action()": "can", "username in self.users": "found",
                                "username not in self.users": "(!found)", "self.users[username].disabled": "disabled",
                                "self._is_last_admin(username)": "lastAdmin"},
                         effects={"self.users[username].disabled = True": "disabled"})
    _run = {"self.operating_state != ServiceOperatingState.RUNNING": "(!running)", "self.operating_state == ServiceOperatingState.RUNNING": "running",
            "self.operating_state is not ServiceOperatingState.RUNNING": "(!running)", "self.operating_state is ServiceOperatingState.RUNNING": "running",
            "self._can_perform_action()": "(nodeOn && running)"}
    term_login = _translate_codes(find_method(term, "login"),
                                  {"None": "0", "self._send_remote_login(username=username, password=password, ip_address=ip_address)": "1",
                                   "self._process_local_login(username=username, password=password)": "2"}, "0",
                                  atoms=dict(_run, **{"ip_address": "hasIp", "ip_address is not None": "hasIp", "ip_address is None": "(!hasIp)"}))
    proc_local = _translate_codes(find_method(term, "_process_local_login"),
                                  {"None": "false", "self._create_local_connection(connection_uuid=connection_uuid, session_id='Local_Connection')": "true"},
                                  "false", atoms={"connection_uuid is None": "(!granted)", "connection_uuid is not None": "granted"},
                                  defs={"self.parent.user_session_manager.local_login(username=username, password=password)": "granted"})
    wrappers = []
    for m in ("local_login", "remote_login"):
        wrappers.append((m, "; ".join(ast.unparse(x) for x in _body(find_method(usm, m)))))
    admins = [ast.unparse(x) for x in _body(find_method(um, "admins"))]

    return f"""set_option linter.unusedVariables false
namespace Primaite.Gen.SessionTr
/-- the time-out decisions of `UserSessionManager.pre_timestep` (`last` = the session's `last_active_step`, `tmo` = the time-out parameter
of its kind, `t` = `timestep`) -/
def preTimestepLocalTest (nodeOn running : Bool) (last tmo t : Nat) : Bool := {tests.get("local", "false /- no decision about the local session -/")}
def preTimestepRemoteTest (nodeOn running : Bool) (last tmo t : Nat) : Bool := {tests.get("remote", "false /- no decision about the remote sessions -/")}
/-- `UserSessionManager.pre_timestep`, translated: the sessions it hands to `_timeout_session`, in order (`Sum.inl` = the local
session, `Sum.inr` = a remote one); `nodeOn` / `running` = the node's power state is ON / the service's state is RUNNING -/
def preTimestepInactive {{L R : Type}} (nodeOn running : Bool) (lastL : L → Nat) (lastR : R → Nat) (lto rto t : Nat)
    (loc : Option L) (rem : List R) : List (L ⊕ R) := {pre}
def preTimestepNotes : List String := {_lean_list(notes)}
/-- `UserSessionManager.validate_remote_session_uuid` (`rem` = the keys of `remote_sessions`) -/
def validateRemoteSessionUuid (rem : List Nat) (cid : Nat) : Bool := {validate}
/-- `Terminal._check_client_connection`: (what it returns, whether it called `_disconnect(connection_id)`) -/
def checkClientConnection (rem conns : List Nat) (cid : Nat) : Bool × Bool := {check}
/-- `IOSoftware._can_perform_action` / `Service._can_perform_action` -/
def softwareCanPerformAction (installed nodeOn : Bool) : Bool := {soft_can}
def serviceCanPerformAction (installed nodeOn running : Bool) : Bool := {svc_can}
/-- `UserManager.authenticate_user` returns a user (`found` / `disabled` / `pwOk`: `self.users.get(username)` is an account / that
account is disabled / its password equals the one given) -/
def authenticateUser (can found disabled pwOk : Bool) : Bool := {auth}
/-- `UserSessionManager.remote_session_limit_reached` -/
def remoteSessionLimitReached (len mx : Nat) : Bool := {limit}
/-- `UserSessionManager._login`: (a session id is returned, a remote session was stored) -/
def login (can auth isLocal hasLoc otherUser limit : Bool) : Bool × Bool := {login}
def loginWrappers : List (String × String) := {_lean_pairs(wrappers)}
/-- `Terminal.login`: 0 = refused (`None`), 1 = `_send_remote_login(…)`, 2 = `_process_local_login(…)` -/
def terminalLogin (nodeOn running hasIp : Bool) : Nat := {term_login}
/-- `Terminal._process_local_login` hands out a connection object (`granted` = `local_login` returned a session id) -/
def processLocalLogin (granted : Bool) : Bool := {proc_local}
/-- `UserManager._is_last_admin` over `admins` -/
def isLastAdmin (isAdmin : Bool) (nAdmins : Nat) : Bool := {last_admin}
def adminsBody : List String := {_lean_list(admins)}
/-- `UserManager.disable_user`: (what it returns, whether it wrote `disabled = True`) -/
def disableUser (can found disabled lastAdmin : Bool) : Bool × Bool := {disable}
end Primaite.Gen.SessionTr
"""
