"""Construction side of the observation layer (C02 / C09), read with `ast` (never imports primaite):

* every `ConfigSchema` of game/agent/observations/*.py: field, annotation, default              (`<Class>_schema`)
* every push-down statement of every `from_config` (which option a parent copies into which child, and under which
  condition: always / only-if-None / only-if-falsy), in source order                             (`<Class>_pushdown`)
* the keyword arguments of the constructor call that ends every `from_config`                    (`<Class>_ctorArgs`)
* the keyword arguments of every padding object created inside an `__init__`                     (`<Class>_padCalls`)
* the ORDER of events inside every `__init__`: attribute assignments, pad / truncate loops, and every statement that
  builds `default_observation` together with the attributes it reads                             (`<Class>_initEvents`)
* in-place writes through `default_observation` / `cached_obs` inside `observe`, and whether the not-ON branch copies the
  default before writing `operating_status`                                                      (`<Class>_observeWrites`)
* the bodies of `PrimaiteGymEnv.agent / observation_space / action_space / _get_obs` and every `self.<attr>` they or
  `__init__` assign that looks like a stored space                                               (`env*`)

Strict: an unrecognised statement in a `from_config` prefix or a pad loop raises (the Gen file is then replaced by a stub and
the dependent theorems fail)."""
import ast
from typing import Dict, List, Optional, Tuple

from harness.extract.util import class_def, find_method, parse

GEN_NAME = "ObsCfgTables"
D = "game/agent/observations/"
SCHEMA_CLASSES = {
    "AbstractObservation": D + "observations.py",
    "ServiceObservation": D + "software_observation.py",
    "ApplicationObservation": D + "software_observation.py",
    "FileObservation": D + "file_system_observations.py",
    "FolderObservation": D + "file_system_observations.py",
    "NICObservation": D + "nic_observations.py",
    "PortObservation": D + "nic_observations.py",
    "LinkObservation": D + "link_observation.py",
    "LinksObservation": D + "link_observation.py",
    "ACLObservation": D + "acl_observation.py",
    "HostObservation": D + "host_observations.py",
    "RouterObservation": D + "router_observation.py",
    "FirewallObservation": D + "firewall_observation.py",
    "NodesObservation": D + "node_observations.py",
    "NestedObservation": D + "observation_manager.py",
}
FROM_CONFIG = ["NodesObservation", "HostObservation", "FolderObservation", "RouterObservation", "FirewallObservation",
               "ServiceObservation", "ApplicationObservation", "FileObservation", "NICObservation", "PortObservation", "ACLObservation"]
INIT_CLASSES = ["FileObservation", "FolderObservation", "NICObservation", "PortObservation", "LinkObservation", "LinksObservation",
                "ACLObservation", "ServiceObservation", "ApplicationObservation", "HostObservation", "RouterObservation",
                "FirewallObservation", "NodesObservation", "NestedObservation"]
OBSERVE_CLASSES = INIT_CLASSES


def q(s: str) -> str:
    return '"' + s.replace("\\", "\\\\").replace('"', '\\"').replace("\n", "\\n") + '"'


def lean_list(items: List[str]) -> str:
    return "[" + ", ".join(items) + "]"


# ------------------------------------------------------------------------------------------------- schemas
def schema_fields(cls: ast.ClassDef) -> List[Tuple[str, str, str]]:
    sch = None
    for n in cls.body:
        if isinstance(n, ast.ClassDef) and n.name == "ConfigSchema":
            sch = n
    if sch is None:
        raise ValueError(f"{cls.name} has no ConfigSchema")
    out = []
    for n in sch.body:
        if isinstance(n, ast.AnnAssign) and isinstance(n.target, ast.Name):
            out.append((n.target.id, ast.unparse(n.annotation), "<required>" if n.value is None else ast.unparse(n.value)))
        elif isinstance(n, ast.Expr) and isinstance(n.value, ast.Constant):
            continue  # docstring
        elif isinstance(n, ast.Assign) and ast.unparse(n.targets[0]) == "model_config":
            out.append(("model_config", "", ast.unparse(n.value)))
        elif isinstance(n, ast.FunctionDef):
            out.append((n.name, "<validator>", ",".join(ast.unparse(d) for d in n.decorator_list)))
        else:
            raise ValueError(f"unrecognised statement in {cls.name}.ConfigSchema: {ast.unparse(n)[:60]}")
    return out


# ------------------------------------------------------------------------------------------------- from_config push-down
def _is_attr_chain(e: ast.AST, root: str) -> Optional[str]:
    """`root.a.b` -> 'a.b'"""
    parts = []
    while isinstance(e, ast.Attribute):
        parts.append(e.attr)
        e = e.value
    if isinstance(e, ast.Name) and e.id == root and parts:
        return ".".join(reversed(parts))
    return None


def _copy_stmt(s: ast.stmt, child: str) -> Optional[Tuple[str, str]]:
    """`child.X = config.Y` -> (X, Y)"""
    if isinstance(s, ast.Assign) and len(s.targets) == 1:
        x = _is_attr_chain(s.targets[0], child)
        y = _is_attr_chain(s.value, "config")
        if x is not None and y is not None:
            return x, y
    return None


def _push_rows(body: List[ast.stmt], child: str, group: str) -> List[Tuple[str, str, str, str]]:
    rows = []
    for s in body:
        c = _copy_stmt(s, child)
        if c:
            rows.append((group, c[0], "always", c[1]))
            continue
        if isinstance(s, ast.If) and not s.orelse and len(s.body) == 1:
            c = _copy_stmt(s.body[0], child)
            t = s.test
            if c:
                if (isinstance(t, ast.Compare) and len(t.ops) == 1 and isinstance(t.ops[0], ast.Is) and isinstance(t.comparators[0], ast.Constant)
                        and t.comparators[0].value is None and _is_attr_chain(t.left, child) == c[0]):
                    rows.append((group, c[0], "if-none", c[1]))
                    continue
                if isinstance(t, ast.UnaryOp) and isinstance(t.op, ast.Not) and _is_attr_chain(t.operand, child) == c[0]:
                    rows.append((group, c[0], "if-falsy", c[1]))
                    continue
        raise ValueError(f"unrecognised push-down statement for {group}: {ast.unparse(s)[:80]}")
    return rows


def pushdown(cls: ast.ClassDef) -> List[Tuple[str, str, str, str]]:
    """(child group, child field, mode, parent field) for every option a from_config copies into a child config, in order.
    Other statements of the prefix are emitted verbatim as ("<stmt>", text, "", "") so that any edit is visible."""
    fn = find_method(cls, "from_config")
    rows: List[Tuple[str, str, str, str]] = []
    for s in fn.body:
        if isinstance(s, ast.Expr) and isinstance(s.value, ast.Constant):
            continue
        if isinstance(s, ast.For) and isinstance(s.target, ast.Name) and _is_attr_chain(s.iter, "config"):
            rows += _push_rows(s.body, s.target.id, _is_attr_chain(s.iter, "config"))
            continue
        if isinstance(s, ast.If) and not s.orelse and len(s.body) == 1 and _is_attr_chain(getattr(s.test, "left", None) or ast.Constant(0), "config"):
            # `if config.acl.X is None: config.acl.X = config.X`  /  `if config.acl is None: config.acl = …`  /  `if config.ports is None: …`
            t = s.test
            tgt = _is_attr_chain(t.left, "config")
            if isinstance(t.ops[0], ast.Is) and isinstance(t.comparators[0], ast.Constant) and t.comparators[0].value is None \
                    and isinstance(s.body[0], ast.Assign) and _is_attr_chain(s.body[0].targets[0], "config") == tgt:
                src = _is_attr_chain(s.body[0].value, "config")
                if src is not None:
                    grp, _, fld = tgt.rpartition(".")
                    rows.append((grp or "<self>", fld, "if-none", src))
                else:
                    rows.append(("<self>", tgt, "if-none:=", ast.unparse(s.body[0].value)))
                continue
        if isinstance(s, ast.Return):
            continue  # the constructor call is emitted separately (ctorArgs)
        rows.append(("<stmt>", ast.unparse(s), "", ""))
    return rows


def ctor_args(cls: ast.ClassDef) -> List[Tuple[str, str]]:
    fn = find_method(cls, "from_config")
    ret = [s for s in fn.body if isinstance(s, ast.Return)]
    if len(ret) != 1 or not isinstance(ret[0].value, ast.Call) or ast.unparse(ret[0].value.func) != "cls" or ret[0].value.args:
        raise ValueError(f"{cls.name}.from_config does not end in one `return cls(kw=…)`")
    return [(k.arg, ast.unparse(k.value)) for k in ret[0].value.keywords]


# ------------------------------------------------------------------------------------------------- __init__ order
def _self_attrs_read(e: ast.AST) -> List[str]:
    out = []
    for n in ast.walk(e):
        if isinstance(n, ast.Attribute) and isinstance(n.value, ast.Name) and n.value.id == "self" and isinstance(n.ctx, ast.Load):
            if n.attr not in out:
                out.append(n.attr)
    return out


def _writes_default(s: ast.stmt) -> bool:
    """does the statement (re)build self.default_observation (assignment, subscript store, .update)?"""
    for n in ast.walk(s):
        if isinstance(n, (ast.Assign, ast.AnnAssign)):
            tgts = n.targets if isinstance(n, ast.Assign) else [n.target]
            for t in tgts:
                base = t
                while isinstance(base, ast.Subscript):
                    base = base.value
                if ast.unparse(base) == "self.default_observation":
                    return True
        if isinstance(n, ast.Call) and isinstance(n.func, ast.Attribute) and n.func.attr in ("update", "setdefault", "pop") \
                and ast.unparse(n.func.value).startswith("self.default_observation"):
            return True
    return False


def init_events(cls: ast.ClassDef) -> Tuple[List[Tuple[str, str, List[str]]], List[Tuple[str, List[Tuple[str, str]]]]]:
    """events of __init__ in source order as (kind, attribute, detail): ("assign", X, [param]) | ("pad"/"trunc", X, [bound]) |
    ("default", "", [attributes read]) | ("alias", X, ["default_observation"]) | ("set", X, []) | ("other", stmt kind, []);
    and the padding constructor calls with their keyword arguments"""
    init = find_method(cls, "__init__")
    ev: List[Tuple[str, str, List[str]]] = []
    pads: List[Tuple[str, List[Tuple[str, str]]]] = []
    for s in init.body:
        if isinstance(s, ast.Expr) and isinstance(s.value, ast.Constant):
            continue
        if isinstance(s, ast.While):
            t = ast.unparse(s.test)
            attr = None
            for n in ast.walk(s.test):
                if isinstance(n, ast.Call) and ast.unparse(n.func) == "len" and _is_attr_chain(n.args[0], "self"):
                    attr = _is_attr_chain(n.args[0], "self")
            if attr is None:
                raise ValueError(f"unrecognised while loop in {cls.name}.__init__: {t}")
            kind = None
            for n in ast.walk(s):
                if isinstance(n, ast.Call) and isinstance(n.func, ast.Attribute) and _is_attr_chain(n.func.value, "self") == attr:
                    if n.func.attr == "append":
                        kind = "pad"
                        c = n.args[0]
                        if not isinstance(c, ast.Call) or c.args:
                            raise ValueError(f"padding object of {cls.name}.{attr} is not a keyword-only constructor call")
                        pads.append((attr, [("<class>", ast.unparse(c.func))] + [(k.arg, ast.unparse(k.value)) for k in c.keywords]))
                    elif n.func.attr == "pop":
                        kind = "trunc"
            op = "<" if isinstance(s.test, ast.Compare) and isinstance(s.test.ops[0], ast.Lt) else ">" if isinstance(s.test, ast.Compare) and isinstance(s.test.ops[0], ast.Gt) else "?"
            if kind is None or (kind, op) not in (("pad", "<"), ("trunc", ">")):
                raise ValueError(f"while loop on self.{attr} in {cls.name}.__init__ neither pads nor truncates: {t}")
            bound = ast.unparse(s.test.comparators[0])
            ev.append((kind, attr, [bound]))
            continue
        if _writes_default(s):
            reads = [a for a in _self_attrs_read(s) if a != "default_observation"]
            ev.append(("default", "", reads))
            continue
        if isinstance(s, (ast.Assign, ast.AnnAssign)):
            tgt = s.targets[0] if isinstance(s, ast.Assign) else s.target
            a = _is_attr_chain(tgt, "self")
            if a is not None:
                val = s.value
                if isinstance(val, ast.Name):
                    ev.append(("assign", a, [val.id]))
                elif ast.unparse(val) == "self.default_observation":
                    ev.append(("alias", a, ["default_observation"]))
                else:
                    ev.append(("set", a, _self_attrs_read(val)))
                continue
        # anything else (threshold if/else, tuple unpacking of de-duplicated lists, …): recorded by kind only
        ev.append(("other", type(s).__name__, []))
    return ev, pads


# ------------------------------------------------------------------------------------------------- observe: in-place writes
def observe_writes(cls: ast.ClassDef) -> Tuple[bool, bool, str]:
    """(writes through self.default_observation in place, writes through self.cached_obs in place,
        how the not-ON branch obtains its dict: 'copy' = `{**self.default_observation}`, 'alias', or 'n/a')"""
    fn = find_method(cls, "observe")
    aliases = {"self.default_observation": "default", "self.cached_obs": "cache"}
    local: Dict[str, str] = {}
    w_default = w_cache = False
    not_on = "n/a"
    for n in ast.walk(fn):
        if isinstance(n, ast.Assign) and len(n.targets) == 1 and isinstance(n.targets[0], ast.Name):
            v = ast.unparse(n.value)
            if v in aliases:
                local[n.targets[0].id] = aliases[v]
    for n in ast.walk(fn):
        if isinstance(n, ast.If) and ast.unparse(n.test) == "not is_on":
            b = n.body[0] if len(n.body) == 1 else None
            if isinstance(b, ast.Assign) and ast.unparse(b.value) == "{**self.default_observation}":
                not_on = "copy"
            elif isinstance(b, ast.Assign) and ast.unparse(b.value) == "self.default_observation":
                not_on = "alias"
            else:
                not_on = "other"
        tgt_roots = []
        if isinstance(n, (ast.Assign, ast.AugAssign)):
            for t in (n.targets if isinstance(n, ast.Assign) else [n.target]):
                if isinstance(t, ast.Subscript):
                    base = t
                    while isinstance(base, ast.Subscript):
                        base = base.value
                    tgt_roots.append(ast.unparse(base))
        if isinstance(n, ast.Call) and isinstance(n.func, ast.Attribute) and n.func.attr in ("update", "setdefault", "pop", "clear", "popitem"):
            base = n.func.value
            while isinstance(base, ast.Subscript):
                base = base.value
            tgt_roots.append(ast.unparse(base))
        for r in tgt_roots:
            kind = aliases.get(r) or local.get(r)
            if kind == "default":
                w_default = True
            if kind == "cache":
                w_cache = True
    return w_default, w_cache, not_on


# ------------------------------------------------------------------------------------------------- environment
def env_tables() -> List[str]:
    tree = parse("session/environment.py")
    cls = class_def(tree, "PrimaiteGymEnv")
    out = []

    def body_lines(name: str) -> List[str]:
        fn = find_method(cls, name)
        return [ast.unparse(s) for s in fn.body if not (isinstance(s, ast.Expr) and isinstance(s.value, ast.Constant))]
    for name, lean in (("agent", "envAgentBody"), ("observation_space", "envObservationSpaceBody"), ("action_space", "envActionSpaceBody"),
                       ("_get_obs", "envGetObsBody")):
        fn = find_method(cls, name)
        lines = []
        for s in fn.body:
            if isinstance(s, ast.Expr) and isinstance(s.value, ast.Constant):
                continue
            lines += ast.unparse(s).splitlines()
        out.append(f"def {lean} : List String := {lean_list([q(l.strip()) for l in lines])}")
        deco = [ast.unparse(d) for d in fn.decorator_list]
        out.append(f"def {lean}Decorators : List String := {lean_list([q(d) for d in deco])}")
    # attributes of `self` assigned anywhere in the class whose name mentions a space (a stored copy that could go stale)
    stored = []
    for fn in cls.body:
        if isinstance(fn, ast.FunctionDef):
            for n in ast.walk(fn):
                tgts = n.targets if isinstance(n, ast.Assign) else [n.target] if isinstance(n, (ast.AnnAssign, ast.AugAssign)) else []
                for t in tgts:
                    a = _is_attr_chain(t, "self")
                    if a is not None and "space" in a:
                        stored.append(f"{fn.name}:{a}")
    out.append(f"def envStoredSpaceAttrs : List String := {lean_list([q(x) for x in sorted(set(stored))])}")
    # reset: the game (hence the agent, hence its observation manager) is rebuilt from the scheduler's config of the new episode
    reset = find_method(cls, "reset")
    rebuilt = [ast.unparse(s) for s in reset.body if isinstance(s, (ast.Assign, ast.AnnAssign)) and ast.unparse(s.targets[0] if isinstance(s, ast.Assign) else s.target) == "self.game"]
    out.append(f"def envResetRebuildsGame : List String := {lean_list([q(x) for x in rebuilt])}")
    # the flatten guard of ProxyAgent (F-C02-2 repaired): checked when the agent is built
    itree = parse("game/agent/interface.py")
    post = find_method(class_def(itree, "ProxyAgent"), "model_post_init")
    guard = [ast.unparse(s.test) for s in post.body if isinstance(s, ast.If)]
    raises = [type(s.body[0]).__name__ + ":" + (ast.unparse(s.body[0].exc.func) if isinstance(s.body[0], ast.Raise) and isinstance(s.body[0].exc, ast.Call) else "?")
              for s in post.body if isinstance(s, ast.If)]
    calls_super_first = bool(post.body) and any("super().model_post_init" in ast.unparse(s) for s in post.body[:2])
    out.append(f"def proxyAgentFlattenGuard : List String := {lean_list([q(g) for g in guard])}")
    out.append(f"def proxyAgentFlattenGuardRaises : List String := {lean_list([q(g) for g in raises])}")
    out.append(f"def proxyAgentGuardAfterManagersBuilt : Bool := {'true' if calls_super_first else 'false'}")
    from harness.extract.util import find_function
    hed = find_function(itree, "_has_empty_dict")
    lines = []
    for st in hed.body:
        if isinstance(st, ast.Expr) and isinstance(st.value, ast.Constant):
            continue
        lines += [l.strip() for l in ast.unparse(st).splitlines()]
    out.append(f"def hasEmptyDictBody : List String := {lean_list([q(l) for l in lines])}")
    return out


# ------------------------------------------------------------------------------------------------- folder: visible health vs flag
def folder_visible_tables() -> List[str]:
    """Where `visible_health_status` of a Folder is assigned, and whether `_scanned_this_step = True` follows in the same function, at
    the block level of the assignment or an enclosing one (the simulator-side condition of C09's folder-cache invariant); where the
    flag is cleared; and an inventory of every assignment to a `visible_health_status` attribute under simulator/."""
    from harness.lib.core import SRC
    tree = parse("simulator/file_system/folder.py")
    cls = class_def(tree, "Folder")
    rows = []
    cleared = []
    for fn in cls.body:
        if not isinstance(fn, ast.FunctionDef):
            continue

        def flag_set_after(block: List[ast.stmt], idx: int) -> bool:
            for s in block[idx + 1:]:
                if isinstance(s, ast.Assign) and ast.unparse(s.targets[0]) == "self._scanned_this_step" and ast.unparse(s.value) == "True":
                    return True
            return False

        def visit(block: List[ast.stmt], enclosing_ok: bool):
            for i, s in enumerate(block):
                here_ok = enclosing_ok or flag_set_after(block, i)
                if isinstance(s, (ast.Assign, ast.AnnAssign)):
                    tgt = s.targets[0] if isinstance(s, ast.Assign) else s.target
                    t = ast.unparse(tgt)
                    if t == "self.visible_health_status":
                        rows.append((fn.name, here_ok))
                    if t == "self._scanned_this_step" and ast.unparse(s.value) == "False" and fn.name != "__init__":
                        cleared.append(fn.name)
                for attr in ("body", "orelse", "finalbody"):
                    sub = getattr(s, attr, None)
                    if isinstance(sub, list) and sub and isinstance(sub[0], ast.stmt):
                        visit(sub, here_ok)
        visit(fn.body, False)
    out = ["def folderVisibleWriters : List (String × Bool) := " + lean_list([f"({q(a)}, {'true' if b else 'false'})" for a, b in rows]),
           "def folderFlagClearedIn : List String := " + lean_list([q(x) for x in cleared])]
    inv = []
    for f in sorted((SRC / "simulator").rglob("*.py")):
        rel = str(f.relative_to(SRC))
        t = ast.parse(f.read_text())
        for fn in ast.walk(t):
            if isinstance(fn, ast.FunctionDef):
                for n in ast.walk(fn):
                    if isinstance(n, (ast.Assign, ast.AugAssign, ast.AnnAssign)):
                        for tg in (n.targets if isinstance(n, ast.Assign) else [n.target]):
                            if isinstance(tg, ast.Attribute) and tg.attr == "visible_health_status":
                                inv.append(f"{rel}:{fn.name}:{ast.unparse(tg.value)}")
    out.append("def visibleHealthStatusAssignedIn : List String := " + lean_list([q(x) for x in sorted(set(inv))]))
    return out


# ------------------------------------------------------------------------------------------------- the is-on gate of the node observations
def on_gate(cls: ast.ClassDef) -> Tuple[str, str, str, bool, List[str]]:
    """The power gate of a node observation's `observe`:
    (the expression `is_on` is assigned, with the state variable written `S`; the test of the branching `if`; what the not-ON branch
    does: 'copy-default' / other; every `.observe(` call of a component sits inside the ON branch; statements after the if/else)."""
    fn = find_method(cls, "observe")
    rhs = "<none>"
    for n in ast.walk(fn):
        if isinstance(n, ast.Assign) and ast.unparse(n.targets[0]) == "is_on":
            if isinstance(n.value, ast.Compare) and isinstance(n.value.left, ast.Subscript):
                rhs = "S" + ast.unparse(n.value)[len(ast.unparse(n.value.left.value)):]
            else:
                rhs = ast.unparse(n.value)
    gate = None
    for i, st in enumerate(fn.body):
        if isinstance(st, ast.If) and "is_on" in ast.unparse(st.test):
            gate = (i, st)
    if gate is None:
        # no `if … is_on` at the top level of observe: report how the power state is tested instead (any top-level If mentioning operating_state)
        tests = [ast.unparse(st.test) for st in fn.body if isinstance(st, ast.If) and "operating_state" in ast.unparse(st.test)]
        return rhs, "<no is_on branch>: " + "; ".join(tests), "?", False, []
    i, st = gate
    test = ast.unparse(st.test)
    if test == "not is_on":
        off_body, on_body = st.body, st.orelse
    elif test == "is_on":
        off_body, on_body = st.orelse, st.body
    else:
        off_body, on_body = [], []
    off = "other"
    if len(off_body) == 1 and isinstance(off_body[0], ast.Assign) and ast.unparse(off_body[0].value) == "{**self.default_observation}":
        off = "copy-default"

    def observes(stmts) -> int:
        return sum(1 for s_ in stmts for n in ast.walk(s_) if isinstance(n, ast.Call) and isinstance(n.func, ast.Attribute) and n.func.attr == "observe")
    outside = observes(fn.body[:i]) + observes(fn.body[i + 1:]) + observes(off_body)
    after = [ast.unparse(x) for x in fn.body[i + 1:]]
    return rhs, test, off, outside == 0 and observes(on_body) > 0, after


# ------------------------------------------------------------------------------------------------- ACLObservation construction paths
def acl_construction_tables() -> List[str]:
    """Which methods of ACLObservation de-duplicate the four lists (`dict.fromkeys`), and every place that constructs an ACLObservation:
    DIRECTLY (`ACLObservation(...)`, runs `__init__` only) or through `ACLObservation.from_config(...)` (runs `from_config`, then `__init__`)."""
    from harness.lib.core import SRC
    acl = class_def(parse(D + "acl_observation.py"), "ACLObservation")
    dedup = []
    for fn in acl.body:
        if isinstance(fn, ast.FunctionDef) and any(isinstance(n, ast.Call) and ast.unparse(n.func) == "dict.fromkeys" for n in ast.walk(fn)):
            dedup.append(fn.name)
    sites = []
    for f in sorted((SRC / "game" / "agent" / "observations").glob("*.py")):
        tree = ast.parse(f.read_text())
        for cls in [n for n in ast.walk(tree) if isinstance(n, ast.ClassDef)]:
            for fn in [n for n in cls.body if isinstance(n, ast.FunctionDef)]:
                for n in ast.walk(fn):
                    if isinstance(n, ast.Call):
                        t = ast.unparse(n.func)
                        if t == "ACLObservation":
                            sites.append((f"{cls.name}.{fn.name}", "direct"))
                        elif t == "ACLObservation.from_config":
                            sites.append((f"{cls.name}.{fn.name}", "from_config"))
    from collections import Counter
    cnt = Counter(sites)
    rows = [f"({q(a)}, {q(b)}, {n})" for (a, b), n in sorted(cnt.items())]
    return [f"def aclDedupIn : List String := {lean_list([q(x) for x in dedup])}",
            f"def aclConstructionSites : List (String × String × Nat) := {lean_list(rows)}"]


# ------------------------------------------------------------------------------------------------- the documentation's band tables
def doc_tables() -> List[str]:
    """The category tables of the demonstration notebook (markdown, read as JSON text): the rows `|value|meaning|` under the named
    `<summary>` headings.  C09's specification bands (`specBand`, `specUtil`) are written from these tables."""
    import json
    import re
    from harness.lib.core import SRC
    nb = json.loads((SRC / "notebooks" / "UC7-E2E-Demo.ipynb").read_text())
    text = "\n".join("".join(c["source"]) for c in nb["cells"] if c["cell_type"] == "markdown")
    out = []
    for lean, heading in (("docExecutionsTable", "Application number of executions category table"), ("docAccessTable", "File number of access category table"),
                          ("docLinkTable", "Link Values Mapping"), ("docNicTrafficTable", "NIC monitored traffic utilisation category table")):
        i = text.find(heading)
        if i < 0:
            raise ValueError(f"documentation table {heading!r} not found")
        block = text[i:text.index("</details>", i)]
        rows = []
        for line in block.splitlines():
            m = re.match(r"^\|\s*([^|]+?)\s*\|\s*([^|]+?)\s*\|\s*$", line)
            if m and not set(m.group(1)) <= set("-: ") and not m.group(1)[0].isalpha():
                rows.append((m.group(1), m.group(2)))
        if not rows:
            raise ValueError(f"documentation table {heading!r} has no rows")
        out.append(f"def {lean} : List (String × String) := " + lean_list([f"({q(a)}, {q(b)})" for a, b in rows]))
    return out


# ------------------------------------------------------------------------------------------------- emit
def emit() -> str:
    trees: Dict[str, ast.Module] = {}
    cls: Dict[str, ast.ClassDef] = {}
    for name, rel in SCHEMA_CLASSES.items():
        trees.setdefault(rel, parse(rel))
        cls[name] = class_def(trees[rel], name)
    out = ["namespace Primaite.Gen.ObsCfgTables", ""]
    for name in SCHEMA_CLASSES:
        rows = [f"({q(a)}, {q(b)}, {q(c)})" for a, b, c in schema_fields(cls[name])]
        out.append(f"def {name}_schema : List (String × String × String) := {lean_list(rows)}")
    out.append("")
    for name in FROM_CONFIG:
        rows = [f"({q(a)}, {q(b)}, {q(c)}, {q(d)})" for a, b, c, d in pushdown(cls[name])]
        out.append(f"def {name}_pushdown : List (String × String × String × String) := {lean_list(rows)}")
        out.append(f"def {name}_ctorArgs : List (String × String) := {lean_list([f'({q(a)}, {q(b)})' for a, b in ctor_args(cls[name])])}")
    out.append("")
    for name in INIT_CLASSES:
        ev, pads = init_events(cls[name])
        out.append(f"def {name}_initEvents : List (String × String × List String) := "
                   + lean_list([f"({q(a)}, {q(b)}, {lean_list([q(x) for x in c])})" for a, b, c in ev]))
        prow = [f"({q(attr)}, {lean_list([f'({q(k)}, {q(v)})' for k, v in kws])})" for attr, kws in pads]
        out.append(f"def {name}_padCalls : List (String × List (String × String)) := {lean_list(prow)}")
    out.append("")
    for name in OBSERVE_CLASSES:
        wd, wc, no = observe_writes(cls[name])
        out.append(f"def {name}_observeWrites : Bool × Bool × String := ({'true' if wd else 'false'}, {'true' if wc else 'false'}, {q(no)})")
    out.append("")
    out += env_tables()
    out.append("")
    out += folder_visible_tables()
    out.append("")
    out += doc_tables()
    out.append("")
    out += acl_construction_tables()
    out.append("")
    for name in ("HostObservation", "RouterObservation", "FirewallObservation"):
        rhs, test, off, inside, after = on_gate(cls[name])
        out.append(f"def {name}_onGate : String × String × String × Bool × List String := "
                   f"({q(rhs)}, {q(test)}, {q(off)}, {'true' if inside else 'false'}, {lean_list([q(a) for a in after])})")
    out.append("end Primaite.Gen.ObsCfgTables\n")
    return "\n".join(out)
