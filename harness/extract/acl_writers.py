"""C07: inventory of every place in the package that WRITES an access-control list (a slot, the implicit action, the bound, a
counter, the list object itself) and of what the lifecycle hooks of the devices touch.

The model has exactly these writers: the constructor, `add_rule`, `remove_rule`, `is_permitted` (one counter), the two request
handlers, the device constructors (`Router.__init__` + `_set_default_acl`), the loaders, and builders of NEW networks.  No
lifecycle hook (setup_for_episode, pre_timestep, apply_timestep, power_on/off, reset, …) is an operation of the model: a new
writer anywhere, or a hook that starts to mention an ACL, breaks `C07_gen_acl_writers` / `C07_gen_hooks_leave_acl_alone`.
Pure `ast` over every module of the package; strict."""
import ast

GEN_NAME = "AclWriters"

from harness.lib.core import SRC

FW_LISTS = ("internal_inbound_acl", "internal_outbound_acl", "dmz_inbound_acl", "dmz_outbound_acl", "external_inbound_acl",
            "external_outbound_acl")
ACL_ATTRS = ("_acl", "acl", "implicit_action", "implicit_rule", "max_acl_rules", "match_count") + FW_LISTS
LIST_ATTRS = ("_acl", "acl") + FW_LISTS
EDITS = ("add_rule", "remove_rule")
HELPERS = ("_set_default_acl",)
MUTATORS = ("clear", "append", "insert", "pop", "remove", "extend", "sort", "reverse", "__setitem__", "__delitem__")
# lifecycle hooks of a device and of what it is made of (called on EXISTING objects by the episode / step machinery)
HOOKS = ("setup_for_episode", "pre_timestep", "apply_timestep", "post_timestep", "power_on", "power_off", "reset", "_start_up_actions",
         "_shut_down_actions", "reset_component_for_episode", "set_original_state", "reset_component")
DEVICE_FILES = ("simulator/network/hardware/nodes/network/router.py", "simulator/network/hardware/nodes/network/firewall.py",
                "simulator/network/hardware/nodes/network/wireless_router.py", "simulator/network/hardware/nodes/network/network_node.py",
                "simulator/network/hardware/base.py", "simulator/core.py", "simulator/network/container.py", "simulator/sim_container.py",
                "game/game.py", "session/environment.py", "session/ray_envs.py")


def _ls(x: str) -> str:
    return '"' + x.replace("\\", "\\\\").replace('"', '\\"') + '"'


class _V(ast.NodeVisitor):
    def __init__(self, rel: str):
        self.rel = rel
        self.stack = []
        self.sites = []
        self.hooks = []

    def _q(self) -> str:
        return ".".join(self.stack) or "<module>"

    def visit_ClassDef(self, n):
        self.stack.append(n.name)
        self.generic_visit(n)
        self.stack.pop()

    def visit_FunctionDef(self, n):
        self.stack.append(n.name)
        if n.name in HOOKS and self.rel in DEVICE_FILES:
            mentions = sorted({ast.unparse(x) for x in ast.walk(n) if isinstance(x, (ast.Attribute, ast.Name))
                               and "acl" in (x.attr if isinstance(x, ast.Attribute) else x.id).lower()})
            self.hooks.append((self.rel, self._q(), mentions))
        self.generic_visit(n)
        self.stack.pop()

    visit_AsyncFunctionDef = visit_FunctionDef

    def _site(self, kind: str):
        self.sites.append((self.rel, self._q(), kind))

    def visit_Call(self, n):
        f = n.func
        name = f.attr if isinstance(f, ast.Attribute) else (f.id if isinstance(f, ast.Name) else None)
        if name in EDITS:
            self._site(f"call:{name}")
        elif name in HELPERS:
            self._site(f"call:{name}")
        elif isinstance(f, ast.Attribute) and f.attr in MUTATORS and isinstance(f.value, ast.Attribute) and f.value.attr in LIST_ATTRS:
            self._site(f"mutate:{f.value.attr}.{f.attr}")
        elif name in ("setattr", "delattr") and len(n.args) >= 2 and isinstance(n.args[1], ast.Constant) and n.args[1].value in ACL_ATTRS:
            self._site(f"{name}:{n.args[1].value}")
        self.generic_visit(n)

    def _target(self, t):
        if isinstance(t, (ast.Tuple, ast.List)):
            for e in t.elts:
                self._target(e)
        elif isinstance(t, ast.Starred):
            self._target(t.value)
        elif isinstance(t, ast.Attribute) and t.attr in ACL_ATTRS:
            self._site(f"assign:{t.attr}")
        elif isinstance(t, ast.Subscript) and isinstance(t.value, ast.Attribute) and t.value.attr in LIST_ATTRS:
            self._site(f"setitem:{t.value.attr}")

    def visit_Assign(self, n):
        for t in n.targets:
            self._target(t)
        self.generic_visit(n)

    def visit_AugAssign(self, n):
        self._target(n.target)
        self.generic_visit(n)

    def visit_AnnAssign(self, n):
        if n.value is not None:
            self._target(n.target)
        self.generic_visit(n)

    def visit_Delete(self, n):
        for t in n.targets:
            self._target(t)
        self.generic_visit(n)

    def visit_NamedExpr(self, n):
        self._target(n.target)
        self.generic_visit(n)


def scan():
    sites, hooks = [], []
    for path in sorted(SRC.joinpath("primaite").rglob("*.py")) if SRC.joinpath("primaite").is_dir() else sorted(SRC.rglob("*.py")):
        rel = str(path.relative_to(SRC.joinpath("primaite") if SRC.joinpath("primaite").is_dir() else SRC))
        v = _V(rel)
        v.visit(ast.parse(path.read_text()))
        sites += v.sites
        hooks += v.hooks
    return sites, hooks


def emit() -> str:
    sites, hooks = scan()
    if not any(k == "call:add_rule" for _, _, k in sites) or not hooks:
        raise ValueError("inventory is empty: the scan does not see the package")
    # one line per (file, function, kind); how often is not part of the claim
    uniq = sorted(set(sites))
    out = ["namespace Primaite.Gen.AclWriters", "",
           "/-- every place that writes an ACL: (module, function, what it does) -/",
           "def writers : List (String × String × String) := ["]
    out.append(",\n".join(f"  ({_ls(a)}, {_ls(b)}, {_ls(c)})" for a, b, c in uniq))
    out.append("]")
    out.append("/-- lifecycle hooks of devices / nodes / the simulation / the game / the environments: (module, function, names containing `acl` it mentions) -/")
    out.append("def hooks : List (String × String × List String) := [")
    out.append(",\n".join(f"  ({_ls(a)}, {_ls(b)}, [{', '.join(_ls(m) for m in ms)}])" for a, b, ms in sorted(hooks)))
    out.append("]")
    out.append("end Primaite.Gen.AclWriters")
    return "\n".join(out) + "\n"
