"""E9: the step/reset pipeline of PrimaiteGymEnv and PrimaiteGame as ordered event lists, and calculate_truncated
translated to a Lean function. Pure ast."""
import ast

from harness.extract.pyexpr import translate_function
from harness.extract.util import class_def, find_method, parse

GEN_NAME = "Episode"


def _calls_in_order(fn: ast.FunctionDef, interesting, render=None):
    """Names of interesting method calls / augmented assignments in source order (logging ignored)."""
    out = []

    class V(ast.NodeVisitor):
        def visit_AugAssign(self, node):
            tgt = ast.unparse(node.target).replace("self.", "").replace("agent.reward_function.", "")
            val = ast.unparse(node.value).replace("self.", "").replace("agent.reward_function.", "")
            op = {ast.Add: "+=", ast.Sub: "-="}.get(type(node.op), "?=")
            out.append(f"{tgt} {op} {val}")
            self.generic_visit(node)

        def visit_If(self, node):
            t = ast.unparse(node.test).replace("self.", "")
            if "step_counter" in t:
                out.append("if " + t)
            self.generic_visit(node)

        def visit_Call(self, node):
            # arguments are evaluated before the call itself
            for a in node.args:
                self.visit(a)
            for k in node.keywords:
                self.visit(k.value)
            name = node.func.attr if isinstance(node.func, ast.Attribute) else (node.func.id if isinstance(node.func, ast.Name) else None)
            if name in interesting:
                out.append(render(name, node) if render else name)
            if isinstance(node.func, ast.Attribute):
                self.visit(node.func.value)
    v = V()
    for st in fn.body:
        v.visit(st)
    return out


def _lean_list(xs):
    return "[" + ", ".join('"' + x.replace('"', "'") + '"' for x in xs) + "]"


def emit() -> str:
    env = parse("session/environment.py")
    game = parse("game/game.py")
    iface = parse("game/agent/interface.py")
    gym = class_def(env, "PrimaiteGymEnv")
    pg = class_def(game, "PrimaiteGame")
    step = find_method(gym, "step")
    step_calls = _calls_in_order(step, {"store_action", "pre_timestep", "apply_agent_actions", "advance_timestep", "get_sim_state",
                                        "update_agents", "_get_obs", "calculate_truncated", "apply_timestep", "apply_request", "reset"})
    term = None
    for n in ast.walk(step):
        if isinstance(n, ast.Assign) and ast.unparse(n.targets[0]) == "terminated":
            if isinstance(n.value, ast.Constant) and isinstance(n.value.value, bool):
                term = n.value.value
    if term is None:
        raise ValueError("`terminated = <bool literal>` not found in PrimaiteGymEnv.step")

    def r_adv(name, node):
        if name == "apply_timestep":
            return "apply_timestep(" + ", ".join(ast.unparse(a).replace("self.", "") for a in node.args) + ")"
        return name
    adv = _calls_in_order(find_method(pg, "advance_timestep"), {"update_agent_loggers", "apply_timestep", "pre_timestep"}, r_adv)

    def r_act(name, node):
        kws = {k.arg: ast.unparse(k.value).replace("self.", "") for k in node.keywords}
        if name in ("get_action", "process_action_response"):
            return f"{name}(timestep={kws.get('timestep')})"
        return name
    act = _calls_in_order(find_method(pg, "apply_agent_actions"), {"get_action", "format_request", "apply_request", "process_action_response"}, r_act)
    upd = _calls_in_order(find_method(pg, "update_agents"), {"update_reward", "save_reward_to_history", "update_observation"})

    def r_reset(name, node):
        if name == "from_config":
            return "from_config(" + ", ".join(ast.unparse(k.value).replace("self.", "") for k in node.keywords) + ")"
        return name
    reset = _calls_in_order(find_method(gym, "reset"), {"from_config", "setup_for_episode", "get_sim_state", "update_agents", "_get_obs"}, r_reset)
    reset = [x for x in reset if not x.startswith("total_reward_per_episode")]
    par = find_method(class_def(iface, "AbstractAgent"), "process_action_response")
    appends = sum(1 for n in ast.walk(par) if isinstance(n, ast.Call) and ast.unparse(n.func) == "self.history.append")
    trunc = translate_function(find_method(pg, "calculate_truncated"), "calculateTruncated", "(stepCounter maxLen : Nat)",
                               {"self.step_counter": ("stepCounter", "nat"), "self.options.max_episode_length": ("maxLen", "nat")}, "Bool")
    return f"""namespace Primaite.Gen.Episode
/-- method calls of `PrimaiteGymEnv.step`, in source order -/
def stepPipeline : List String := {_lean_list(step_calls)}
def terminatedLiteral : Bool := {"true" if term else "false"}
/-- `PrimaiteGame.advance_timestep` -/
def advanceTimestep : List String := {_lean_list(adv)}
/-- body of the per-agent loop of `PrimaiteGame.apply_agent_actions` -/
def applyAgentActions : List String := {_lean_list(act)}
/-- body of the per-agent loop of `PrimaiteGame.update_agents` -/
def updateAgentsBody : List String := {_lean_list(upd)}
/-- `PrimaiteGymEnv.reset` -/
def resetPipeline : List String := {_lean_list(reset)}
/-- number of `self.history.append(...)` in `AbstractAgent.process_action_response` -/
def historyAppendsPerResponse : Nat := {appends}
/-- `PrimaiteGame.calculate_truncated`, translated statement by statement -/
{trunc}
end Primaite.Gen.Episode
"""
