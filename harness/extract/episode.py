"""E9: the step/reset pipeline of PrimaiteGymEnv, PrimaiteRayMARLEnv and PrimaiteGame as ordered event lists,
calculate_truncated translated to a Lean function, and the shape of one history record (fields of AgentHistoryItem, the
keyword arguments of its single construction site, the Literal of RequestResponse.status, who overrides the methods that
write the history). Pure ast."""
import ast
from pathlib import Path

from harness.lib.core import SRC

from harness.extract.pyexpr import translate_function
from harness.extract.util import class_def, find_method, parse

GEN_NAME = "Episode"


def _calls_in_order(fn: ast.FunctionDef, interesting, render=None):
    """Names of interesting method calls / augmented assignments in source order (logging ignored)."""
    out = []

    class V(ast.NodeVisitor):
        def visit_AugAssign(self, node):
            tgt = ast.unparse(node.target).replace("self.", "").replace("agent.reward_function.", "")
            val = ast.unparse(node.value).replace("self.", "").replace("agent.reward_function.", "")
            op = {ast.Add: "+=", ast.Sub: "-="}.get(type(node.op), "?=")
            out.append(f"{tgt} {op} {val}")
            self.generic_visit(node)

        def visit_If(self, node):
            t = ast.unparse(node.test).replace("self.", "")
            if "step_counter" in t:
                out.append("if " + t)
            self.generic_visit(node)

        def visit_Call(self, node):
            # arguments are evaluated before the call itself
            for a in node.args:
                self.visit(a)
            for k in node.keywords:
                self.visit(k.value)
            name = node.func.attr if isinstance(node.func, ast.Attribute) else (node.func.id if isinstance(node.func, ast.Name) else None)
            if name in interesting:
                out.append(render(name, node) if render else name)
            if isinstance(node.func, ast.Attribute):
                self.visit(node.func.value)
    v = V()
    for st in fn.body:
        v.visit(st)
    return out


def _lean_list(xs):
    return "[" + ", ".join('"' + x.replace('"', "'") + '"' for x in xs) + "]"


def emit() -> str:
    env = parse("session/environment.py")
    game = parse("game/game.py")
    iface = parse("game/agent/interface.py")
    gym = class_def(env, "PrimaiteGymEnv")
    pg = class_def(game, "PrimaiteGame")
    step = find_method(gym, "step")
    step_calls = _calls_in_order(step, {"store_action", "pre_timestep", "apply_agent_actions", "advance_timestep", "get_sim_state",
                                        "update_agents", "_get_obs", "calculate_truncated", "apply_timestep", "apply_request", "reset"})
    term = None
    for n in ast.walk(step):
        if isinstance(n, ast.Assign) and ast.unparse(n.targets[0]) == "terminated":
            if isinstance(n.value, ast.Constant) and isinstance(n.value.value, bool):
                term = n.value.value
    if term is None:
        raise ValueError("`terminated = <bool literal>` not found in PrimaiteGymEnv.step")

    def r_adv(name, node):
        if name == "apply_timestep":
            return "apply_timestep(" + ", ".join(ast.unparse(a).replace("self.", "") for a in node.args) + ")"
        return name
    adv = _calls_in_order(find_method(pg, "advance_timestep"), {"update_agent_loggers", "apply_timestep", "pre_timestep"}, r_adv)

    def r_act(name, node):
        kws = {k.arg: ast.unparse(k.value).replace("self.", "") for k in node.keywords}
        if name in ("get_action", "process_action_response"):
            return f"{name}(timestep={kws.get('timestep')})"
        return name
    act = _calls_in_order(find_method(pg, "apply_agent_actions"), {"get_action", "format_request", "apply_request", "process_action_response"}, r_act)
    upd = _calls_in_order(find_method(pg, "update_agents"), {"update_reward", "save_reward_to_history", "update_observation"})

    def r_reset(name, node):
        if name == "from_config":
            return "from_config(" + ", ".join([ast.unparse(a).replace("self.", "") for a in node.args]
                                              + [ast.unparse(k.value).replace("self.", "") for k in node.keywords]) + ")"
        return name
    reset = _calls_in_order(find_method(gym, "reset"), {"from_config", "setup_for_episode", "get_sim_state", "update_agents", "_get_obs"}, r_reset)
    reset = [x for x in reset if not x.startswith("total_reward_per_episode")]
    par = find_method(class_def(iface, "AbstractAgent"), "process_action_response")
    appends = sum(1 for n in ast.walk(par) if isinstance(n, ast.Call) and ast.unparse(n.func) == "self.history.append")
    trunc = translate_function(find_method(pg, "calculate_truncated"), "calculateTruncated", "(stepCounter maxLen : Nat)",
                               {"self.step_counter": ("stepCounter", "nat"), "self.options.max_episode_length": ("maxLen", "nat")}, "Bool")
    # ---- the MARL environment drives the same game methods in the same order (the rig's MarlDriver mirrors it)
    ray = parse("session/ray_envs.py")
    marl = class_def(ray, "PrimaiteRayMARLEnv")
    interesting = {"store_action", "pre_timestep", "apply_agent_actions", "advance_timestep", "get_sim_state", "update_agents", "_get_obs",
                   "calculate_truncated", "apply_timestep", "apply_request", "reset"}
    marl_step = _calls_in_order(find_method(marl, "step"), interesting)
    # calculate_truncated is called once per RL agent and once for "__all__": collapse repetitions
    marl_step = [x for i, x in enumerate(marl_step) if i == 0 or marl_step[i - 1] != x]
    marl_reset = _calls_in_order(find_method(marl, "reset"), {"from_config", "setup_for_episode", "get_sim_state", "update_agents", "_get_obs"}, r_reset)
    marl_term = None
    for n in ast.walk(find_method(marl, "step")):
        if isinstance(n, ast.Assign) and ast.unparse(n.targets[0]) == "terminateds" and isinstance(n.value, ast.DictComp):
            if isinstance(n.value.value, ast.Constant) and isinstance(n.value.value.value, bool):
                marl_term = n.value.value.value
    if marl_term is None:
        raise ValueError("`terminateds = {name: <bool literal> …}` not found in PrimaiteRayMARLEnv.step")
    # ---- PrimaiteGame.step(): the loop for scripted agents only
    def r_gs(name, node):
        return name
    game_step = _calls_in_order(find_method(pg, "step"), {"pre_timestep", "get_sim_state", "update_observation", "apply_agent_actions",
                                                          "advance_timestep", "update_agents"}, r_gs)
    # ---- one history record
    item = class_def(iface, "AgentHistoryItem")
    fields = []
    for st in item.body:
        if isinstance(st, ast.AnnAssign) and isinstance(st.target, ast.Name):
            fields.append((st.target.id, ast.unparse(st.annotation), st.value is not None))
        elif isinstance(st, ast.Expr) and isinstance(st.value, ast.Constant) and isinstance(st.value.value, str):
            continue
        else:
            raise ValueError(f"unrecognised statement in AgentHistoryItem: {ast.unparse(st)[:60]}")
    ctor = [n for n in ast.walk(par) if isinstance(n, ast.Call) and ast.unparse(n.func) == "AgentHistoryItem"]
    if len(ctor) != 1 or ctor[0].args:
        raise ValueError("process_action_response does not construct exactly one AgentHistoryItem by keywords")
    ctor_kw = [(k.arg, ast.unparse(k.value)) for k in ctor[0].keywords]
    par_body = [st for st in par.body if not (isinstance(st, ast.Expr) and isinstance(st.value, ast.Constant))]
    if len(par_body) != 1 or not (isinstance(par_body[0], ast.Expr) and isinstance(par_body[0].value, ast.Call)
                                  and ast.unparse(par_body[0].value.func) == "self.history.append"
                                  and par_body[0].value.args and par_body[0].value.args[0] is ctor[0]):
        raise ValueError("process_action_response is not the single statement self.history.append(AgentHistoryItem(…))")
    save = find_method(class_def(iface, "AbstractAgent"), "save_reward_to_history")
    save_body = [ast.unparse(st) for st in save.body if not (isinstance(st, ast.Expr) and isinstance(st.value, ast.Constant))]
    req = parse("interface/request.py")
    rr = class_def(req, "RequestResponse")
    status = None
    for st in rr.body:
        if isinstance(st, ast.AnnAssign) and isinstance(st.target, ast.Name) and st.target.id == "status":
            ann = st.annotation
            if isinstance(ann, ast.Subscript) and ast.unparse(ann.value) == "Literal":
                elts = ann.slice.elts if isinstance(ann.slice, ast.Tuple) else [ann.slice]
                status = [e.value for e in elts if isinstance(e, ast.Constant) and isinstance(e.value, str)]
                if len(status) != len(elts):
                    raise ValueError("RequestResponse.status Literal has non-string members")
    if status is None:
        raise ValueError("RequestResponse.status is not annotated with a Literal[...]")
    strict = any(isinstance(st, ast.Assign) and ast.unparse(st.targets[0]) == "model_config" and "extra='forbid'" in ast.unparse(st.value)
                 for st in rr.body)
    # ---- who else defines the methods that write the history (an override could skip the append)
    overriders = []
    for f in sorted((SRC / "game").rglob("*.py")) + sorted((SRC / "session").rglob("*.py")):
        tree = ast.parse(f.read_text())
        for c in ast.walk(tree):
            if isinstance(c, ast.ClassDef):
                for m in c.body:
                    if isinstance(m, ast.FunctionDef) and m.name in ("process_action_response", "save_reward_to_history") \
                            and not (c.name == "AbstractAgent" and f.name == "interface.py"):
                        overriders.append(f"{c.name}.{m.name}")

    def pairs(xs):
        return "[" + ", ".join('("' + a.replace('"', "'") + '", "' + b.replace('"', "'") + '")' for a, b in xs) + "]"
    return f"""namespace Primaite.Gen.Episode
/-- method calls of `PrimaiteGymEnv.step`, in source order -/
def stepPipeline : List String := {_lean_list(step_calls)}
def terminatedLiteral : Bool := {"true" if term else "false"}
/-- `PrimaiteGame.advance_timestep` -/
def advanceTimestep : List String := {_lean_list(adv)}
/-- body of the per-agent loop of `PrimaiteGame.apply_agent_actions` -/
def applyAgentActions : List String := {_lean_list(act)}
/-- body of the per-agent loop of `PrimaiteGame.update_agents` -/
def updateAgentsBody : List String := {_lean_list(upd)}
/-- `PrimaiteGymEnv.reset` -/
def resetPipeline : List String := {_lean_list(reset)}
/-- number of `self.history.append(...)` in `AbstractAgent.process_action_response` -/
def historyAppendsPerResponse : Nat := {appends}
/-- `PrimaiteGame.calculate_truncated`, translated statement by statement -/
{trunc}
/-- method calls of `PrimaiteRayMARLEnv.step` (repetitions of one call collapsed) and `.reset`, in source order -/
def marlStepPipeline : List String := {_lean_list(marl_step)}
def marlResetPipeline : List String := {_lean_list(marl_reset)}
def marlTerminatedLiteral : Bool := {"true" if marl_term else "false"}
/-- `PrimaiteGame.step` (scripted agents only): calls and the step-0 guard, in source order -/
def gameStepPipeline : List String := {_lean_list(game_step)}
/-- fields of `AgentHistoryItem` (name, annotation) and whether each has a default -/
def historyItemFields : List (String × String) := {pairs([(a, b) for a, b, _ in fields])}
def historyItemRequired : List String := {_lean_list([a for a, _, d in fields if not d])}
/-- keyword arguments of the single `AgentHistoryItem(...)` in `AbstractAgent.process_action_response` (its only statement is
`self.history.append(<that call>)`) -/
def historyItemConstruction : List (String × String) := {pairs(ctor_kw)}
/-- body of `AbstractAgent.save_reward_to_history` -/
def saveRewardBody : List String := {_lean_list(save_body)}
/-- members of the `Literal[...]` that annotates `RequestResponse.status`; the model forbids extra fields -/
def responseStatusLiteral : List String := {_lean_list(status)}
def responseModelForbidsExtra : Bool := {"true" if strict else "false"}
/-- classes under game/ and session/ (other than AbstractAgent itself) that define `process_action_response` or
`save_reward_to_history` -/
def historyWriterOverrides : List String := {_lean_list(overriders)}
end Primaite.Gen.Episode
"""
