"""E9b (C04): what `PrimaiteGymEnv.reset` keeps and what it rebuilds, and how the schedulers hand out scenarios. Pure ast.

Emits, for the environment object `self`:
  * the attributes assigned by `__init__`, by `reset`, by `step` and by every other method,
  * the expression assigned to `self.game` in `reset` and the `self.*` attributes / calls evaluated before that assignment,
  * the `self.*` attributes read by the methods that run after a reset (`step`, `_get_obs`, `agent`, `action_space`, …),
  * the return expression of `ConstantEpisodeScheduler.__call__`, and whether `EpisodeListScheduler.__call__` parses the YAML anew,
  * the attributes of `self` assigned by `EpisodeListScheduler.__call__` (the scheduler's own mutable state).
Strict: an assignment target on `self` it cannot name raises."""
import ast
from typing import List

from harness.extract.util import class_def, find_method, parse

GEN_NAME = "IsolationReset"


def _self_attr(t: ast.AST) -> str:
    """`self.x`, `self.x[...]`, `self.x.y` as a store target -> name of the attribute of self that is (re)bound or mutated"""
    base = t
    while isinstance(base, (ast.Subscript, ast.Attribute)) and not (isinstance(base, ast.Attribute) and isinstance(base.value, ast.Name)):
        base = base.value
    if isinstance(base, ast.Attribute) and isinstance(base.value, ast.Name) and base.value.id == "self":
        return base.attr + ("" if base is t else "[…]")
    return ""


def _assigned(fn: ast.FunctionDef) -> List[str]:
    out = []
    for n in ast.walk(fn):
        tg = []
        if isinstance(n, ast.Assign):
            tg = n.targets
        elif isinstance(n, (ast.AugAssign, ast.AnnAssign)):
            tg = [n.target]
        for t in tg:
            for tt in (t.elts if isinstance(t, (ast.Tuple, ast.List)) else [t]):
                a = _self_attr(tt)
                if a and a not in out:
                    out.append(a)
                elif not a and isinstance(tt, (ast.Attribute, ast.Subscript)) and "self" in ast.unparse(tt).split(".")[0:1]:
                    raise ValueError(f"{fn.name}: unrecognised store on self: {ast.unparse(tt)}")
    return out


def _reads(fn: ast.FunctionDef) -> List[str]:
    out = []
    for n in ast.walk(fn):
        if isinstance(n, ast.Attribute) and isinstance(n.value, ast.Name) and n.value.id == "self" and isinstance(n.ctx, ast.Load):
            if n.attr not in out:
                out.append(n.attr)
    return out


def _l(xs) -> str:
    return "[" + ", ".join('"' + x.replace("\\", "\\\\").replace('"', "'") + '"' for x in xs) + "]"


def emit() -> str:
    env = class_def(parse("session/environment.py"), "PrimaiteGymEnv")
    methods = {n.name: n for n in env.body if isinstance(n, ast.FunctionDef)}
    for need in ("__init__", "reset", "step", "_get_obs", "close"):
        if need not in methods:
            raise ValueError(f"PrimaiteGymEnv.{need} not found")
    reset = methods["reset"]
    # the statement `self.game = …` in reset, and what runs before it
    game_src = None
    before: List[str] = []
    calls_before: List[str] = []
    after_calls: List[str] = []
    seen_game = False
    for st in reset.body:
        if isinstance(st, (ast.Assign, ast.AnnAssign)):
            tgt = st.targets[0] if isinstance(st, ast.Assign) else st.target
            if ast.unparse(tgt) == "self.game":
                if game_src is not None:
                    raise ValueError("reset assigns self.game twice")
                game_src = ast.unparse(st.value)
                seen_game = True
                continue
        if isinstance(st, ast.Expr) and isinstance(st.value, ast.Constant):
            continue
        for n in ast.walk(st):
            if isinstance(n, ast.Call):
                f = ast.unparse(n.func)
                if f.startswith("_LOGGER"):
                    continue
                (after_calls if seen_game else calls_before).append(f)
        if not seen_game:
            for n in ast.walk(st):
                if isinstance(n, ast.Attribute) and isinstance(n.value, ast.Name) and n.value.id == "self" and isinstance(n.ctx, ast.Load):
                    if n.attr not in before:
                        before.append(n.attr)
    if game_src is None:
        raise ValueError("reset does not assign self.game")
    # `__init__`: the statement `self.game = …` must be a top-level statement as well (the construction of the game is unconditional)
    init_src = [ast.unparse(st.value) for st in methods["__init__"].body if isinstance(st, (ast.Assign, ast.AnnAssign)) and st.value is not None
                and ast.unparse(st.targets[0] if isinstance(st, ast.Assign) else st.target) == "self.game"]
    if len(init_src) != 1:
        raise ValueError(f"__init__: expected exactly one top-level `self.game = …`, found {len(init_src)}")
    later_methods = [m for m in methods if m not in ("__init__", "reset")]
    later_reads: List[str] = []
    later_writes: List[str] = []
    for m in later_methods:
        for a in _reads(methods[m]):
            if a not in later_reads:
                later_reads.append(a)
        for a in _assigned(methods[m]):
            if a not in later_writes:
                later_writes.append(f"{m}:{a}")
    sched = parse("session/episode_schedule.py")
    const = find_method(class_def(sched, "ConstantEpisodeScheduler"), "__call__")
    rets = [n for n in ast.walk(const) if isinstance(n, ast.Return)]
    if len(rets) != 1:
        raise ValueError("ConstantEpisodeScheduler.__call__: expected exactly one return")
    lst = find_method(class_def(sched, "EpisodeListScheduler"), "__call__")
    lst_calls = [ast.unparse(n.func) for n in ast.walk(lst) if isinstance(n, ast.Call)]
    lst_ret = [ast.unparse(n.value) for n in ast.walk(lst) if isinstance(n, ast.Return)]
    # the name returned must be bound from yaml.safe_load in the same call
    parsed_from = ""
    for n in ast.walk(lst):
        if isinstance(n, ast.Assign) and len(n.targets) == 1 and ast.unparse(n.targets[0]) in lst_ret:
            parsed_from = ast.unparse(n.value.func) if isinstance(n.value, ast.Call) else ast.unparse(n.value)
    return f"""namespace Primaite.Gen.IsolationReset
/-- attributes of the environment object bound by `__init__` -/
def initAssigns : List String := {_l(_assigned(methods['__init__']))}
/-- attributes of the environment object (re)bound or mutated by `reset` -/
def resetAssigns : List String := {_l(_assigned(reset))}
/-- the expression `reset` assigns to `self.game` -/
def resetGameSource : String := "{game_src}"
/-- the expression `__init__` assigns to `self.game` (a top-level statement) -/
def initGameSource : String := "{init_src[0]}"
/-- attributes of self read by `reset` before it replaces the game -/
def resetReadsBeforeNewGame : List String := {_l(before)}
/-- calls made by `reset` before / after it replaces the game (logging excluded) -/
def resetCallsBefore : List String := {_l(calls_before)}
def resetCallsAfter : List String := {_l(after_calls)}
/-- every method other than `__init__` and `reset`: attributes of self they read, and `method:attribute` they assign -/
def laterMethods : List String := {_l(later_methods)}
def laterReads : List String := {_l(later_reads)}
def laterWrites : List String := {_l(later_writes)}
/-- `ConstantEpisodeScheduler.__call__` -/
def constantSchedulerReturns : String := "{ast.unparse(rets[0].value)}"
/-- `EpisodeListScheduler.__call__`: what it returns, how that value is produced, which attributes of the scheduler it assigns -/
def listSchedulerReturns : List String := {_l(lst_ret)}
def listSchedulerParsedBy : String := "{parsed_from}"
def listSchedulerAssigns : List String := {_l(_assigned(lst))}
def listSchedulerCalls : List String := {_l(sorted(set(lst_calls)))}
end Primaite.Gen.IsolationReset
"""


if __name__ == "__main__":
    print(emit())
