"""E9b (C04): what `PrimaiteGymEnv.reset` keeps and what it rebuilds, and how the schedulers hand out scenarios. Pure ast.

Emits, for the environment object `self`:
  * the attributes assigned by `__init__`, by `reset`, by `step` and by every other method,
  * the expression assigned to `self.game` in `reset` and the `self.*` attributes / calls evaluated before that assignment,
  * the `self.*` attributes read by the methods that run after a reset (`step`, `_get_obs`, `agent`, `action_space`, …),
  * the return expression of `ConstantEpisodeScheduler.__call__`, and whether `EpisodeListScheduler.__call__` parses the YAML anew,
  * the attributes of `self` assigned by `EpisodeListScheduler.__call__` (the scheduler's own mutable state).
Strict: an assignment target on `self` it cannot name raises."""
import ast
from typing import List

from harness.extract.util import class_def, find_function, find_method, parse

GEN_NAME = "IsolationReset"


def _self_attr(t: ast.AST) -> str:
    """`self.x`, `self.x[...]`, `self.x.y` as a store target -> name of the attribute of self that is (re)bound or mutated"""
    base = t
    while isinstance(base, (ast.Subscript, ast.Attribute)) and not (isinstance(base, ast.Attribute) and isinstance(base.value, ast.Name)):
        base = base.value
    if isinstance(base, ast.Attribute) and isinstance(base.value, ast.Name) and base.value.id == "self":
        return base.attr + ("" if base is t else "[…]")
    return ""


def _assigned(fn: ast.FunctionDef) -> List[str]:
    out = []
    for n in ast.walk(fn):
        tg = []
        if isinstance(n, ast.Assign):
            tg = n.targets
        elif isinstance(n, (ast.AugAssign, ast.AnnAssign)):
            tg = [n.target]
        for t in tg:
            for tt in (t.elts if isinstance(t, (ast.Tuple, ast.List)) else [t]):
                a = _self_attr(tt)
                if a and a not in out:
                    out.append(a)
                elif not a and isinstance(tt, (ast.Attribute, ast.Subscript)) and "self" in ast.unparse(tt).split(".")[0:1]:
                    raise ValueError(f"{fn.name}: unrecognised store on self: {ast.unparse(tt)}")
    return out


def _reads(fn: ast.FunctionDef) -> List[str]:
    out = []
    for n in ast.walk(fn):
        if isinstance(n, ast.Attribute) and isinstance(n.value, ast.Name) and n.value.id == "self" and isinstance(n.ctx, ast.Load):
            if n.attr not in out:
                out.append(n.attr)
    return out


def _l(xs) -> str:
    return "[" + ", ".join('"' + x.replace("\\", "\\\\").replace('"', "'") + '"' for x in xs) + "]"


# ------------------------------------------------------------------------------------------------ the seed argument
class _Unrec(ValueError):
    pass


def _is_doc(s: ast.stmt) -> bool:
    return isinstance(s, ast.Expr) and isinstance(s.value, ast.Constant) and isinstance(s.value.value, str)


def _int_const(e: ast.AST):
    if isinstance(e, ast.Constant) and isinstance(e.value, int) and not isinstance(e.value, bool):
        return e.value
    if isinstance(e, ast.UnaryOp) and isinstance(e.op, ast.USub) and isinstance(e.operand, ast.Constant) and isinstance(e.operand.value, int):
        return -e.operand.value
    return None


_CMP = {ast.Eq: "=", ast.NotEq: "≠", ast.Lt: "<", ast.LtE: "≤", ast.Gt: ">", ast.GtE: "≥"}


def _opt_bool(e: ast.AST, name: str) -> str:
    """Lean Bool for Python's `bool(e)` where `name : Option Int` is the only free variable (an `Optional[int]` parameter).
    `is None` / `is not None`, truthiness (None and 0 are falsy), comparisons with integer literals (None compares unequal to every
    integer; an ORDER comparison of None would raise TypeError in Python: refused here unless an `is not None` conjunct guards it),
    `and` / `or` / `not`."""
    if isinstance(e, ast.Name) and e.id == name:
        return f"(match {name} with | some v => decide (v ≠ 0) | none => false)"
    if isinstance(e, ast.Constant) and isinstance(e.value, bool):
        return "true" if e.value else "false"
    if isinstance(e, ast.UnaryOp) and isinstance(e.op, ast.Not):
        return f"(!{_opt_bool(e.operand, name)})"
    if isinstance(e, ast.BoolOp):
        if isinstance(e.op, ast.And):
            guarded = any(isinstance(v, ast.Compare) and isinstance(v.ops[0], ast.IsNot) for v in e.values[:1])
            return "(" + " && ".join(_opt_bool(v, name) if not (guarded and i > 0) else _opt_bool_some(v, name) for i, v in enumerate(e.values)) + ")"
        return "(" + " || ".join(_opt_bool(v, name) for v in e.values) + ")"
    if isinstance(e, ast.Compare) and len(e.ops) == 1 and isinstance(e.left, ast.Name) and e.left.id == name:
        op, rhs = e.ops[0], e.comparators[0]
        if isinstance(op, (ast.Is, ast.IsNot)) and isinstance(rhs, ast.Constant) and rhs.value is None:
            return f"({name}).isNone" if isinstance(op, ast.Is) else f"({name}).isSome"
        c = _int_const(rhs)
        if c is not None and isinstance(op, (ast.Eq, ast.NotEq)):
            neg = "true" if isinstance(op, ast.NotEq) else "false"
            return f"(match {name} with | some v => decide (v {_CMP[type(op)]} {c}) | none => {neg})"
    raise _Unrec(f"seed test not recognised: {ast.unparse(e)}")


def _opt_bool_some(e: ast.AST, name: str) -> str:
    """a conjunct evaluated only when `name is not None` held: order comparisons are allowed"""
    if isinstance(e, ast.Compare) and len(e.ops) == 1 and isinstance(e.left, ast.Name) and e.left.id == name and type(e.ops[0]) in _CMP:
        c = _int_const(e.comparators[0])
        if c is not None:
            return f"(match {name} with | some v => decide (v {_CMP[type(e.ops[0])]} {c}) | none => false)"
    return _opt_bool(e, name)


def _int_bool(e: ast.AST, name: str) -> str:
    """Lean Bool for a test on `v : Int` (the value of the parameter `name`, known not to be None)"""
    if isinstance(e, ast.Compare) and len(e.ops) == 1 and isinstance(e.left, ast.Name) and e.left.id == name and type(e.ops[0]) in _CMP:
        c = _int_const(e.comparators[0])
        if c is not None:
            return f"decide (v {_CMP[type(e.ops[0])]} {c})"
    if isinstance(e, ast.BoolOp):
        return "(" + (" && " if isinstance(e.op, ast.And) else " || ").join(_int_bool(v, name) for v in e.values) + ")"
    if isinstance(e, ast.UnaryOp) and isinstance(e.op, ast.Not):
        return f"(!{_int_bool(e.operand, name)})"
    if isinstance(e, ast.Name) and e.id == name:
        return "decide (v ≠ 0)"
    raise _Unrec(f"test on the seed value not recognised: {ast.unparse(e)}")


def _seed_function(env_tree: ast.Module):
    """`set_random_seed(seed, generate_seed_value)`: strict shape
         if seed is None or <T1 over the value>:   (no-seed branch)
             if generate_seed_value: <draw a seed from entropy> else: return None
         elif <T2 over the value>: raise …
         random.seed(seed); np.random.seed(seed); [if torch: th.manual_seed(seed) …]; return seed
    -> (lean text of the function, the seeding calls as (callee, argument, nesting))"""
    fn = find_function(env_tree, "set_random_seed")
    params = [a.arg for a in fn.args.args]
    if len(params) != 2:
        raise _Unrec(f"set_random_seed: parameters {params}")
    sd, gen = params
    body = [s for s in fn.body if not _is_doc(s)]
    if not body or not isinstance(body[0], ast.If):
        raise _Unrec("set_random_seed: the first statement is not the no-seed test")
    first = body[0]
    t = first.test
    if not (isinstance(t, ast.BoolOp) and isinstance(t.op, ast.Or) and isinstance(t.values[0], ast.Compare) and isinstance(t.values[0].ops[0], ast.Is)
            and ast.unparse(t.values[0]) == f"{sd} is None"):
        # `seed is None` alone
        if ast.unparse(t) == f"{sd} is None":
            rest_t1 = "false"
        else:
            raise _Unrec(f"set_random_seed: no-seed test is not `{sd} is None or …`: {ast.unparse(t)}")
    else:
        rest = t.values[1:]
        rest_t1 = _int_bool(rest[0] if len(rest) == 1 else ast.BoolOp(op=ast.Or(), values=rest), sd)
    # the no-seed branch: `if generate_seed_value: … else: return None`
    nb = [s for s in first.body if not _is_doc(s)]
    if not (len(nb) == 1 and isinstance(nb[0], ast.If) and ast.unparse(nb[0].test) == gen and len(nb[0].orelse) == 1
            and isinstance(nb[0].orelse[0], ast.Return) and (nb[0].orelse[0].value is None or ast.unparse(nb[0].orelse[0].value) == "None")):
        raise _Unrec("set_random_seed: the no-seed branch is not `if generate_seed_value: … else: return None`")
    if any(isinstance(x, ast.Return) for s in nb[0].body for x in ast.walk(s)) or not any(
            isinstance(s, ast.Assign) and ast.unparse(s.targets[0]) == sd for s in nb[0].body):
        raise _Unrec("set_random_seed: the generate branch does not bind a new seed and fall through")
    # elif: raise
    t2 = "false"
    if first.orelse:
        if not (len(first.orelse) == 1 and isinstance(first.orelse[0], ast.If) and not first.orelse[0].orelse
                and len(first.orelse[0].body) == 1 and isinstance(first.orelse[0].body[0], ast.Raise)):
            raise _Unrec("set_random_seed: the second branch is not `elif <test>: raise …`")
        t2 = _int_bool(first.orelse[0].test, sd)
    # the seeding statements
    calls = []
    returned = None
    for st in body[1:]:
        if isinstance(st, ast.Return):
            returned = ast.unparse(st.value) if st.value is not None else "None"
            break
        nest = "top" if isinstance(st, ast.Expr) else "if " + ast.unparse(st.test) if isinstance(st, ast.If) else None
        if nest is None:
            raise _Unrec(f"set_random_seed: statement after the tests not recognised: {ast.unparse(st)[:60]}")
        for x in ast.walk(st):
            if isinstance(x, ast.Call) and isinstance(x.func, ast.Attribute) and x.func.attr in ("seed", "manual_seed", "manual_seed_all"):
                calls.append((ast.unparse(x.func), ", ".join(ast.unparse(a) for a in x.args), nest))
        if any(isinstance(x, (ast.Assign, ast.AugAssign)) and any(ast.unparse(tg) == sd for tg in (x.targets if isinstance(x, ast.Assign) else [x.target]))
               for x in ast.walk(st)):
            raise _Unrec("set_random_seed: the seed is re-bound after the tests")
    if returned != sd:
        raise _Unrec(f"set_random_seed: returns {returned}, not the seed")
    lean = (f"def setRandomSeed (seed : Option Int) (gen : Bool) : SeedOutcome :=\n"
            f"  match seed with\n"
            f"  | none => if gen then .generated else .keeps\n"
            f"  | some v => if {rest_t1} then (if gen then .generated else .keeps) else if {t2} then .raises else .seeds v")
    return lean, calls, sd


def _reset_seed_statement(reset: ast.FunctionDef):
    """the ONE top-level statement of `reset` that calls `set_random_seed`: `if <guard over seed>: set_random_seed(seed, self.generate_seed_value)`
    (no else), before `self.game = …` -> (guard as Lean Bool over `seed : Option Int`, the call as written, index of the statement, index of the game statement)"""
    hits = [(i, st) for i, st in enumerate(reset.body) if any(isinstance(x, ast.Call) and ast.unparse(x.func).split(".")[-1] == "set_random_seed" for x in ast.walk(st))]
    if len(hits) != 1:
        raise _Unrec(f"reset: {len(hits)} top-level statements call set_random_seed")
    i, st = hits[0]
    params = [a.arg for a in reset.args.args]
    if "seed" not in params:
        raise _Unrec(f"reset: no parameter `seed`: {params}")
    default = reset.args.defaults[params.index("seed") - (len(params) - len(reset.args.defaults))] if len(reset.args.defaults) >= len(params) - params.index("seed") else None
    if default is None or ast.unparse(default) != "None":
        raise _Unrec("reset: the default of `seed` is not None")
    for j, s2 in enumerate(reset.body[:i]):
        if any(isinstance(x, (ast.Assign, ast.AugAssign, ast.AnnAssign)) and "seed" in [ast.unparse(t) for t in (x.targets if isinstance(x, ast.Assign) else [x.target])]
               for x in ast.walk(s2)):
            raise _Unrec("reset: `seed` is re-bound before it is tested")
    if isinstance(st, ast.Expr) and isinstance(st.value, ast.Call):
        guard, call = "true", st.value          # unconditional call
    elif isinstance(st, ast.If) and not st.orelse and len(st.body) == 1 and isinstance(st.body[0], ast.Expr) and isinstance(st.body[0].value, ast.Call):
        guard, call = _opt_bool(st.test, "seed"), st.body[0].value
    else:
        raise _Unrec(f"reset: the seeding statement is not `if <test>: set_random_seed(…)`: {ast.unparse(st)[:80]}")
    game_i = next((k for k, s2 in enumerate(reset.body) if isinstance(s2, (ast.Assign, ast.AnnAssign)) and
                   ast.unparse(s2.targets[0] if isinstance(s2, ast.Assign) else s2.target) == "self.game"), None)
    return guard, ast.unparse(call), i, game_i


def _init_seed_statements(init: ast.FunctionDef):
    """top-level statements of `__init__` that bind `self.seed` / `self.generate_seed_value`, as written, and whether all of them precede
    the `self.game = …` statement"""
    out = []
    game_i = None
    last = -1
    for k, st in enumerate(init.body):
        if isinstance(st, (ast.Assign, ast.AnnAssign)) and st.value is not None:
            tgt = ast.unparse(st.targets[0] if isinstance(st, ast.Assign) else st.target)
            if tgt in ("self.seed", "self.generate_seed_value"):
                out.append(f"{tgt} = {ast.unparse(st.value)}")
                last = k
            if tgt == "self.game" and game_i is None:
                game_i = k
    nested = [ast.unparse(x)[:60] for st in init.body if not isinstance(st, (ast.Assign, ast.AnnAssign, ast.Expr)) for x in ast.walk(st)
              if isinstance(x, ast.Call) and "set_random_seed" in ast.unparse(x.func)]
    if nested:
        raise _Unrec(f"__init__: set_random_seed called inside a compound statement: {nested}")
    return out, (game_i is not None and last < game_i)


def _game_assignments(fn: ast.FunctionDef) -> List[str]:
    return [ast.unparse(st.value) for st in ast.walk(fn) if isinstance(st, (ast.Assign, ast.AnnAssign)) and st.value is not None
            and ast.unparse(st.targets[0] if isinstance(st, ast.Assign) else st.target) == "self.game"]


def _other_env_classes() -> str:
    """The other two environment classes (session/ray_envs.py). `PrimaiteRayMARLEnv` drives a game directly: what its `reset` / `__init__`
    assign to `self.game`, what `reset` (re)binds, what the other methods assign, how it looks its agents up, and EVERY call in the class
    that seeds or is handed a seed (expected: none - its `reset(seed=…)` is the unseeded reset). `PrimaiteRayEnv` wraps a `PrimaiteGymEnv`:
    what it binds `self.env` to, what it assigns after `__init__`, and the calls through which it delegates."""
    ray = parse("session/ray_envs.py")
    m = class_def(ray, "PrimaiteRayMARLEnv")
    mm = {n.name: n for n in m.body if isinstance(n, ast.FunctionDef)}
    for need in ("__init__", "reset", "step", "agents", "close"):
        if need not in mm:
            raise ValueError(f"PrimaiteRayMARLEnv.{need} not found")
    rg, ig = _game_assignments(mm["reset"]), _game_assignments(mm["__init__"])
    if len(rg) != 1 or len(ig) != 1:
        raise ValueError(f"PrimaiteRayMARLEnv: expected one `self.game = …` in reset and in __init__, found {len(rg)} / {len(ig)}")
    top_reset = [ast.unparse(st.targets[0] if isinstance(st, ast.Assign) else st.target) for st in mm["reset"].body
                 if isinstance(st, (ast.Assign, ast.AnnAssign))]
    later = []
    for name, fn in mm.items():
        if name not in ("__init__", "reset"):
            later += [f"{name}:{a}" for a in _assigned(fn)]
    seedish = []
    for name, fn in mm.items():
        for n in ast.walk(fn):
            if isinstance(n, ast.Call):
                f = ast.unparse(n.func)
                if "seed" in f.lower() or any(k.arg and "seed" in k.arg.lower() for k in n.keywords) \
                        or any(isinstance(a, ast.Name) and "seed" in a.id.lower() for a in n.args):
                    seedish.append(f"{name}:{ast.unparse(n)}")
    agents_ret = [ast.unparse(n.value) for n in ast.walk(mm["agents"]) if isinstance(n, ast.Return)]
    agents_stmts = [st for st in mm["agents"].body if not (isinstance(st, ast.Expr) and isinstance(st.value, ast.Constant))]
    r = class_def(ray, "PrimaiteRayEnv")
    rm = {n.name: n for n in r.body if isinstance(n, ast.FunctionDef)}
    for need in ("__init__", "reset", "step", "close", "game"):
        if need not in rm:
            raise ValueError(f"PrimaiteRayEnv.{need} not found")
    env_src = [ast.unparse(st.value) for st in rm["__init__"].body if isinstance(st, ast.Assign) and ast.unparse(st.targets[0]) == "self.env"]
    r_later = []
    for name, fn in rm.items():
        if name != "__init__":
            r_later += [f"{name}:{a}" for a in _assigned(fn)]

    def env_calls(fn, meth):
        return sorted({ast.unparse(n) for n in ast.walk(fn) if isinstance(n, ast.Call) and ast.unparse(n.func) == f"self.env.{meth}"})
    game_ret = [ast.unparse(n.value) for n in ast.walk(rm["game"]) if isinstance(n, ast.Return)]
    return f"""/-- `PrimaiteRayMARLEnv`: the expressions `reset` / `__init__` assign to `self.game` -/
def marlResetGameSource : String := {_l(rg)[1:-1]}
def marlInitGameSource : String := {_l(ig)[1:-1]}
/-- `PrimaiteRayMARLEnv.reset`: attributes (re)bound or mutated; are the game assignment and the counter increment top-level statements -/
def marlResetAssigns : List String := {_l(_assigned(mm['reset']))}
def marlResetTopLevelTargets : List String := {_l(top_reset)}
/-- `PrimaiteRayMARLEnv`: `method:attribute` assigned by the methods other than `__init__` / `reset` -/
def marlLaterWrites : List String := {_l(later)}
/-- `PrimaiteRayMARLEnv`: every call that seeds something or is handed a seed (`method:call`) -/
def marlSeedCalls : List String := {_l(seedish)}
/-- `PrimaiteRayMARLEnv.agents`: number of statements (docstring aside) and what it returns -/
def marlAgentsStatements : Nat := {len(agents_stmts)}
def marlAgentsReturns : List String := {_l(agents_ret)}
/-- `PrimaiteRayEnv`: what `self.env` is bound to, what is assigned after `__init__`, the delegating calls, the `game` property -/
def rayEnvSource : List String := {_l(env_src)}
def rayEnvLaterWrites : List String := {_l(r_later)}
def rayEnvResetCalls : List String := {_l(env_calls(rm['reset'], 'reset'))}
def rayEnvStepCalls : List String := {_l(env_calls(rm['step'], 'step'))}
def rayEnvCloseCalls : List String := {_l(env_calls(rm['close'], 'close'))}
def rayEnvGameReturns : List String := {_l(game_ret)}"""


def emit() -> str:
    env_tree = parse("session/environment.py")
    env = class_def(env_tree, "PrimaiteGymEnv")
    methods = {n.name: n for n in env.body if isinstance(n, ast.FunctionDef)}
    for need in ("__init__", "reset", "step", "_get_obs", "close"):
        if need not in methods:
            raise ValueError(f"PrimaiteGymEnv.{need} not found")
    reset = methods["reset"]
    # the statement `self.game = …` in reset, and what runs before it
    game_src = None
    before: List[str] = []
    calls_before: List[str] = []
    after_calls: List[str] = []
    seen_game = False
    for st in reset.body:
        if isinstance(st, (ast.Assign, ast.AnnAssign)):
            tgt = st.targets[0] if isinstance(st, ast.Assign) else st.target
            if ast.unparse(tgt) == "self.game":
                if game_src is not None:
                    raise ValueError("reset assigns self.game twice")
                game_src = ast.unparse(st.value)
                seen_game = True
                continue
        if isinstance(st, ast.Expr) and isinstance(st.value, ast.Constant):
            continue
        for n in ast.walk(st):
            if isinstance(n, ast.Call):
                f = ast.unparse(n.func)
                if f.startswith("_LOGGER"):
                    continue
                (after_calls if seen_game else calls_before).append(f)
        if not seen_game:
            for n in ast.walk(st):
                if isinstance(n, ast.Attribute) and isinstance(n.value, ast.Name) and n.value.id == "self" and isinstance(n.ctx, ast.Load):
                    if n.attr not in before:
                        before.append(n.attr)
    if game_src is None:
        raise ValueError("reset does not assign self.game")
    # `__init__`: the statement `self.game = …` must be a top-level statement as well (the construction of the game is unconditional)
    init_src = [ast.unparse(st.value) for st in methods["__init__"].body if isinstance(st, (ast.Assign, ast.AnnAssign)) and st.value is not None
                and ast.unparse(st.targets[0] if isinstance(st, ast.Assign) else st.target) == "self.game"]
    if len(init_src) != 1:
        raise ValueError(f"__init__: expected exactly one top-level `self.game = …`, found {len(init_src)}")
    later_methods = [m for m in methods if m not in ("__init__", "reset")]
    later_reads: List[str] = []
    later_writes: List[str] = []
    for m in later_methods:
        for a in _reads(methods[m]):
            if a not in later_reads:
                later_reads.append(a)
        for a in _assigned(methods[m]):
            if a not in later_writes:
                later_writes.append(f"{m}:{a}")
    sched = parse("session/episode_schedule.py")
    const = find_method(class_def(sched, "ConstantEpisodeScheduler"), "__call__")
    rets = [n for n in ast.walk(const) if isinstance(n, ast.Return)]
    if len(rets) != 1:
        raise ValueError("ConstantEpisodeScheduler.__call__: expected exactly one return")
    lst = find_method(class_def(sched, "EpisodeListScheduler"), "__call__")
    lst_calls = [ast.unparse(n.func) for n in ast.walk(lst) if isinstance(n, ast.Call)]
    lst_ret = [ast.unparse(n.value) for n in ast.walk(lst) if isinstance(n, ast.Return)]
    # the name returned must be bound from yaml.safe_load in the same call
    parsed_from = ""
    for n in ast.walk(lst):
        if isinstance(n, ast.Assign) and len(n.targets) == 1 and ast.unparse(n.targets[0]) in lst_ret:
            parsed_from = ast.unparse(n.value.func) if isinstance(n.value, ast.Call) else ast.unparse(n.value)
    seed_fn, seed_calls, seed_param = _seed_function(env_tree)
    guard, seed_call, seed_i, game_i = _reset_seed_statement(reset)
    init_seed, init_seed_first = _init_seed_statements(methods["__init__"])
    marl = _other_env_classes()
    # every function of the package that (re)seeds a process-global generator
    return f"""import PrimaiteModel.Model.Isolation
namespace Primaite.Gen.IsolationReset
open Primaite.Isolation (SeedOutcome)
/-- `set_random_seed({seed_param}, …)` translated from source (the tests on the value as written) -/
{seed_fn}
/-- the calls that seed a process-global generator in `set_random_seed`, after its tests: (callee, argument, `top` = unconditional) -/
def seedCalls : List (String × String × String) := [{", ".join("(" + _l([c, a, n])[1:-1] + ")" for c, a, n in seed_calls)}]
/-- the test in front of `set_random_seed(…)` in `reset`, over the parameter `seed : Optional[int]` (Python truthiness / `is None`) -/
def resetSeedGuard (seed : Option Int) : Bool := {guard}
/-- the seeding call of `reset` as written, and whether that statement is a top-level statement BEFORE `self.game = …` -/
def resetSeedCall : String := {_l([seed_call])[1:-1]}
def resetSeedsBeforeNewGame : Bool := {"true" if (game_i is not None and seed_i < game_i) else "false"}
/-- `__init__`: the statements binding `self.seed` / `self.generate_seed_value`, in order; all before `self.game = …` -/
def initSeedStatements : List String := {_l(init_seed)}
def initSeedsBeforeNewGame : Bool := {"true" if init_seed_first else "false"}
/-- attributes of the environment object bound by `__init__` -/
def initAssigns : List String := {_l(_assigned(methods['__init__']))}
/-- attributes of the environment object (re)bound or mutated by `reset` -/
def resetAssigns : List String := {_l(_assigned(reset))}
/-- the expression `reset` assigns to `self.game` -/
def resetGameSource : String := "{game_src}"
/-- the expression `__init__` assigns to `self.game` (a top-level statement) -/
def initGameSource : String := "{init_src[0]}"
/-- attributes of self read by `reset` before it replaces the game -/
def resetReadsBeforeNewGame : List String := {_l(before)}
/-- calls made by `reset` before / after it replaces the game (logging excluded) -/
def resetCallsBefore : List String := {_l(calls_before)}
def resetCallsAfter : List String := {_l(after_calls)}
/-- every method other than `__init__` and `reset`: attributes of self they read, and `method:attribute` they assign -/
def laterMethods : List String := {_l(later_methods)}
def laterReads : List String := {_l(later_reads)}
def laterWrites : List String := {_l(later_writes)}
/-- `ConstantEpisodeScheduler.__call__` -/
def constantSchedulerReturns : String := "{ast.unparse(rets[0].value)}"
/-- `EpisodeListScheduler.__call__`: what it returns, how that value is produced, which attributes of the scheduler it assigns -/
def listSchedulerReturns : List String := {_l(lst_ret)}
def listSchedulerParsedBy : String := "{parsed_from}"
def listSchedulerAssigns : List String := {_l(_assigned(lst))}
def listSchedulerCalls : List String := {_l(sorted(set(lst_calls)))}
{marl}
end Primaite.Gen.IsolationReset
"""


if __name__ == "__main__":
    print(emit())
