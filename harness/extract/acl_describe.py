"""C07: the two READERS of a rule — `ACLRule.describe_state()` (what observations and `describe_state()["acl"]` carry) and the
row cells of `AccessControlList.show()` — translated expression by expression (Python truthiness by declared type) into
functions `Rule → Rule`; Props/C07Parse.lean proves the first is the identity (nothing lost, port 0 included) and the second
is the identity except that a port 0 is DISPLAYED as ANY.  Pure `ast`; strict."""
import ast
import copy

GEN_NAME = "AclDescribe"

from harness.extract import pyexpr
from harness.extract.util import class_def, find_method, parse

ROUTER = "simulator/network/hardware/nodes/network/router.py"
KEYS = {"action": "action", "protocol": "proto", "src_ip_address": "srcIp", "src_wildcard_mask": "srcWc", "src_port": "srcPort",
        "dst_ip_address": "dstIp", "dst_wildcard_mask": "dstWc", "dst_port": "dstPort", "match_count": "hits"}
COLUMNS = ["Index", "Action", "Protocol", "Src IP", "Src Wildcard", "Src Port", "Dst IP", "Dst Wildcard", "Dst Port", "Matched"]
CELL_FIELDS = [None, "action", "proto", "srcIp", "srcWc", "srcPort", "dstIp", "dstWc", "dstPort", "hits"]


class Shape(ValueError):
    pass


def _need(c, what):
    if not c:
        raise Shape(what)


def _env(obj: str) -> dict:
    return {f"{obj}.protocol": ("r.proto", "opt"), f"{obj}.src_ip_address": ("r.srcIp", "opt_ip"), f"{obj}.src_wildcard_mask": ("r.srcWc", "opt_ip"),
            f"{obj}.dst_ip_address": ("r.dstIp", "opt_ip"), f"{obj}.dst_wildcard_mask": ("r.dstWc", "opt_ip"),
            f"{obj}.src_port": ("r.srcPort", "optnat"), f"{obj}.dst_port": ("r.dstPort", "optnat"),
            f"{obj}.action.value": ("r.action", "action"), f"{obj}.action.name": ("r.action", "action"),
            f"{obj}.match_count": ("r.hits", "nat")}


class _Strip(ast.NodeTransformer):
    """`str(x)` and f"{x}" are injective renderings of x (dotted quad / decimal): drop them; the text "ANY" is the display of None"""

    def visit_Call(self, n):
        self.generic_visit(n)
        if isinstance(n.func, ast.Name) and n.func.id == "str" and len(n.args) == 1 and not n.keywords:
            return n.args[0]
        return n

    def visit_JoinedStr(self, n):
        _need(len(n.values) == 1 and isinstance(n.values[0], ast.FormattedValue) and n.values[0].conversion == -1
              and n.values[0].format_spec is None, f"f-string {ast.unparse(n)}")
        return self.visit(n.values[0].value)

    def visit_Constant(self, n):
        if n.value == "ANY":
            return ast.Constant(value=None)
        return n


def _tr(e: ast.AST, env: dict, field: str) -> str:
    e = _Strip().visit(copy.deepcopy(e))
    try:
        s, ty = pyexpr.expr(e, env)
    except pyexpr.Unsupported as x:
        raise Shape(f"{field}: {x}")
    return s


def emit() -> str:
    tree = parse(ROUTER)
    rule = class_def(tree, "ACLRule")
    fn = find_method(rule, "describe_state")
    body = [b for b in fn.body if not (isinstance(b, ast.Expr) and isinstance(b.value, ast.Constant))]
    _need(ast.unparse(body[0]) == "state = super().describe_state()" and ast.unparse(body[-1]) == "return state", "describe_state frame")
    got = {}
    for st in body[1:-1]:
        _need(isinstance(st, ast.Assign) and len(st.targets) == 1 and isinstance(st.targets[0], ast.Subscript)
              and ast.unparse(st.targets[0].value) == "state" and isinstance(st.targets[0].slice, ast.Constant), f"statement {ast.unparse(st)}")
        k = st.targets[0].slice.value
        _need(k in KEYS and k not in got, f"key {k!r} unknown or written twice")
        got[k] = _tr(st.value, _env("self"), k)
    _need(set(got) == set(KEYS), f"keys missing: {sorted(set(KEYS) - set(got))}")
    fields = ", ".join(f"{KEYS[k]} := {got[k]}" for k in KEYS)
    out = ["import PrimaiteModel.Model.AclObj", "namespace Primaite.Gen.AclDescribe", "open Primaite.Acl",
           "/-- `ACLRule.describe_state()`, key by key (`str()` of an address dropped: injective) -/",
           f"def describeRule (r : Rule) : Rule := {{ {fields} }}"]
    # show(): header and the row literal
    acl = class_def(tree, "AccessControlList")
    show = find_method(acl, "show")
    tables = [n for n in ast.walk(show) if isinstance(n, ast.Call) and ast.unparse(n.func) == "PrettyTable"]
    _need(len(tables) == 1 and len(tables[0].args) == 1 and isinstance(tables[0].args[0], ast.List), "one PrettyTable([...])")
    cols = [c.value for c in tables[0].args[0].elts if isinstance(c, ast.Constant)]
    _need(cols == COLUMNS, f"columns {cols}")
    rows = [n for n in ast.walk(show) if isinstance(n, ast.Call) and ast.unparse(n.func) == "table.add_row"]
    _need(len(rows) == 1 and len(rows[0].args) == 1 and isinstance(rows[0].args[0], ast.List) and len(rows[0].args[0].elts) == 10, "one add_row([10 cells])")
    cells = rows[0].args[0].elts
    _need(ast.unparse(cells[0]) == "index", "first cell is the index")
    # the row is added for truthy entries of the iterable only (`if rule:`) — a rule object is always truthy
    loops = [n for n in ast.walk(show) if isinstance(n, ast.For)]
    _need(len(loops) == 1 and len(loops[0].body) == 1 and isinstance(loops[0].body[0], ast.If) and ast.unparse(loops[0].body[0].test) == "rule"
          and not loops[0].body[0].orelse, "for …: if rule: add_row")
    env = _env("rule")
    cellv = {}
    for c, f in zip(cells[1:], CELL_FIELDS[1:]):
        if f == "action":
            # an enum member is always truthy: `rule.action.name if rule.action else "ANY"` = the name
            _need(ast.unparse(c) in ("rule.action.name if rule.action else 'ANY'", "rule.action.name"), f"action cell {ast.unparse(c)}")
            cellv[f] = "r.action"
        else:
            cellv[f] = _tr(c, env, f)
    fields = ", ".join(f"{f} := {cellv[f]}" for f in CELL_FIELDS[1:])
    out += ["/-- the cells of one row of `show()` (the text ANY = none; f-strings dropped) -/",
            f"def showCells (r : Rule) : Rule := {{ {fields} }}",
            "end Primaite.Gen.AclDescribe"]
    return "\n".join(out) + "\n"
