"""E8/E11/E3 for C08: TTL constants and the decrement/test/forward order of every receive_frame and routing hop, the
broadcast guard of Router.process_frame, and the loop of RouteTable.find_best_route (initial values, update test translated to
Lean, default-route fallback).  Pure `ast`; strict: an unrecognised shape raises."""
import ast

GEN_NAME = "Forward"

from harness.extract.util import class_def, find_method, parse

ROUTER = "simulator/network/hardware/nodes/network/router.py"


def _is_call(st: ast.stmt, text: str) -> bool:
    return isinstance(st, ast.Expr) and isinstance(st.value, ast.Call) and ast.unparse(st.value) == text


def _ttl_test(st: ast.stmt):
    """`if frame.ip and frame.ip.ttl < K: ...; return [False]` → K"""
    if not isinstance(st, ast.If):
        return None
    t = st.test
    if not (isinstance(t, ast.BoolOp) and isinstance(t.op, ast.And) and len(t.values) == 2 and ast.unparse(t.values[0]) == "frame.ip"):
        return None
    c = t.values[1]
    if not (isinstance(c, ast.Compare) and ast.unparse(c.left) == "frame.ip.ttl" and len(c.ops) == 1 and isinstance(c.ops[0], ast.Lt)
            and isinstance(c.comparators[0], ast.Constant) and isinstance(c.comparators[0].value, int)):
        return None
    if not isinstance(st.body[-1], ast.Return) or st.orelse:
        return None
    return c.comparators[0].value


def _rx_shape(cls: ast.ClassDef) -> int:
    """receive_frame: `if self.enabled:` whose body starts `frame.decrement_ttl()`, `if frame.ip and frame.ip.ttl < K: return False`."""
    fn = find_method(cls, "receive_frame")
    body = [s for s in fn.body if not (isinstance(s, ast.Expr) and isinstance(s.value, ast.Constant))]
    if not (isinstance(body[0], ast.If) and ast.unparse(body[0].test) == "self.enabled"):
        raise ValueError(f"{cls.name}.receive_frame does not start with `if self.enabled:`")
    inner = body[0].body
    if not _is_call(inner[0], "frame.decrement_ttl()"):
        raise ValueError(f"{cls.name}.receive_frame: first action is not frame.decrement_ttl()")
    k = _ttl_test(inner[1])
    if k is None:
        raise ValueError(f"{cls.name}.receive_frame: no TTL test right after the decrement")
    return k


def _hop_shape(fn: ast.FunctionDef) -> int:
    """the constant K of the one `decrement; if ttl < K: drop` sequence of a router forwarding method.  SEMANTIC since round 7b: read off
    the statement-by-statement translation (harness/extract/forward_route.py: any equivalent spelling of the test — `<= 0`, `not ttl >= 1`,
    with or without `frame.ip and` — gives the same K); that a send happens only after a tested decrement and both header writes is
    `C08_gen_route_frame_hops`, proved about the translated programs."""
    import re

    from harness.extract.forward_route import _translate
    prog = _translate(fn, fn.name == "process_frame")
    ks = re.findall(r"FProg\.decTtl \(FProg\.ifTtlLt \((-?\d+)\)", prog)
    if len(ks) != 1 or prog.count("FProg.decTtl") != 1:
        raise ValueError(f"{fn.name}: expected exactly one decrement followed by its TTL test, found {prog.count('FProg.decTtl')} decrement(s), {len(ks)} tested")
    return int(ks[0])


NAMES = {"prefix_len": "p", "longest_prefix": "l", "route.metric": "m", "lowest_metric": "lo"}


def _cond(e: ast.AST) -> str:
    if isinstance(e, ast.BoolOp):
        op = " || " if isinstance(e.op, ast.Or) else " && "
        return "(" + op.join(_cond(v) for v in e.values) + ")"
    if isinstance(e, ast.Compare) and len(e.ops) == 1:
        a, b = ast.unparse(e.left), ast.unparse(e.comparators[0])
        if a not in NAMES or b not in NAMES:
            raise ValueError(f"unknown operand in {ast.unparse(e)}")
        a, b = NAMES[a], NAMES[b]
        if b == "lo":
            if not (isinstance(e.ops[0], ast.Lt) and a == "m"):
                raise ValueError(f"unsupported comparison with lowest_metric: {ast.unparse(e)}")
            return "ltInf m lo"
        op = {ast.Gt: ">", ast.Lt: "<", ast.Eq: "==", ast.GtE: ">=", ast.LtE: "<="}.get(type(e.ops[0]))
        if op is None:
            raise ValueError(f"unsupported operator in {ast.unparse(e)}")
        return f"decide ({a} {op.replace('==', '=')} {b})"
    raise ValueError(f"unsupported expression {ast.unparse(e)}")


def emit() -> str:
    tree = parse(ROUTER)
    # --- TTL
    ip_tree = parse("simulator/network/transmission/network_layer.py")
    ttl = None
    for st in class_def(ip_tree, "IPPacket").body:
        if isinstance(st, ast.AnnAssign) and ast.unparse(st.target) == "ttl":
            ttl = st.value.value
    if not isinstance(ttl, int):
        raise ValueError("IPPacket.ttl default is not an int literal")
    dl_tree = parse("simulator/network/transmission/data_link_layer.py")
    dec = find_method(class_def(dl_tree, "Frame"), "decrement_ttl")
    body = [s for s in dec.body if not (isinstance(s, ast.Expr) and isinstance(s.value, ast.Constant))]
    if not (len(body) == 1 and isinstance(body[0], ast.AugAssign) and isinstance(body[0].op, ast.Sub)
            and ast.unparse(body[0].target) == "self.ip.ttl" and isinstance(body[0].value, ast.Constant)):
        raise ValueError("Frame.decrement_ttl is not `self.ip.ttl -= k`")
    dec_by = body[0].value.value
    rx = [("NIC", _rx_shape(class_def(parse("simulator/network/hardware/nodes/host/host_node.py"), "NIC"))),
          ("RouterInterface", _rx_shape(class_def(tree, "RouterInterface"))),
          ("SwitchPort", _rx_shape(class_def(parse("simulator/network/hardware/nodes/network/switch.py"), "SwitchPort")))]
    router = class_def(tree, "Router")
    hops = [("process_frame", _hop_shape(find_method(router, "process_frame"))),
            ("route_frame", _hop_shape(find_method(router, "route_frame")))]
    # --- broadcast guard at the top of process_frame
    pf = [s for s in find_method(router, "process_frame").body if not (isinstance(s, ast.Expr) and isinstance(s.value, ast.Constant))]
    guard = (isinstance(pf[0], ast.If) and ast.unparse(pf[0].test) == "frame.is_broadcast" and len(pf[0].body) == 1
             and isinstance(pf[0].body[0], ast.Return) and pf[0].body[0].value is None and not pf[0].orelse)
    # --- find_best_route
    fbr = find_method(class_def(tree, "RouteTable"), "find_best_route")
    inits = {}
    for st in fbr.body:
        if isinstance(st, ast.Assign) and len(st.targets) == 1:
            inits[ast.unparse(st.targets[0])] = ast.unparse(st.value)
    if inits.get("best_route") != "None" or inits.get("longest_prefix") != "-1" or inits.get("lowest_metric") != "float('inf')":
        raise ValueError(f"find_best_route: unexpected initial values {inits}")
    loop = next((s for s in fbr.body if isinstance(s, ast.For)), None)
    if loop is None or ast.unparse(loop.iter) != "self.routes" or ast.unparse(loop.target) != "route":
        raise ValueError("find_best_route: no `for route in self.routes` loop")
    if any(isinstance(n, (ast.Break, ast.Continue, ast.Return)) for n in ast.walk(loop)):
        raise ValueError("find_best_route: the loop leaves early")
    lb = loop.body
    if not (len(lb) == 3 and ast.unparse(lb[0]) == "route_network = IPv4Network(f'{route.address}/{route.subnet_mask}', strict=False)"
            and ast.unparse(lb[1]) == "prefix_len = route_network.prefixlen" and isinstance(lb[2], ast.If)
            and ast.unparse(lb[2].test) == "destination_ip in route_network" and not lb[2].orelse and len(lb[2].body) == 1
            and isinstance(lb[2].body[0], ast.If) and not lb[2].body[0].orelse):
        raise ValueError("find_best_route: unexpected loop body")
    upd = lb[2].body[0]
    assigns = sorted(ast.unparse(s) for s in upd.body)
    if assigns != ["best_route = route", "longest_prefix = prefix_len", "lowest_metric = route.metric"]:
        raise ValueError(f"find_best_route: unexpected update {assigns}")
    cond = _cond(upd.test)
    after = fbr.body[fbr.body.index(loop) + 1:]
    if not (len(after) == 2 and isinstance(after[0], ast.If) and ast.unparse(after[0].test) == "not best_route and self.default_route"
            and [ast.unparse(s) for s in after[0].body] == ["best_route = self.default_route"] and not after[0].orelse
            and ast.unparse(after[1]) == "return best_route"):
        raise ValueError("find_best_route: unexpected default-route fallback")
    # --- find_best_route is a FUNCTION of (self.routes, self.default_route, destination): it reads no other attribute, writes none, calls
    # no method of the table; the table has no further state a look-up could consult (a memo would be a new field); the only writers
    # are add_route (append) and set_default_route_next_hop_ip_address (assign default_route)
    rt_cls = class_def(tree, "RouteTable")
    fields = sorted(ast.unparse(st.target) for st in rt_cls.body if isinstance(st, ast.AnnAssign))
    if fields != ["default_route", "routes", "sys_log"]:
        raise ValueError(f"RouteTable: unexpected fields {fields} (a new field is new state a look-up may depend on: model it)")
    methods = sorted(n.name for n in rt_cls.body if isinstance(n, ast.FunctionDef))
    if methods != ["add_route", "describe_state", "find_best_route", "set_default_route_next_hop_ip_address", "show"]:
        raise ValueError(f"RouteTable: unexpected methods {methods} (a new writer of the table must be modelled)")

    def self_reads(fn):
        return sorted({n.attr for n in ast.walk(fn) if isinstance(n, ast.Attribute) and isinstance(n.value, ast.Name) and n.value.id == "self"})

    def self_writes(fn):
        out = []
        for n in ast.walk(fn):
            tg = []
            if isinstance(n, ast.Assign):
                tg = n.targets
            elif isinstance(n, (ast.AugAssign, ast.AnnAssign)):
                tg = [n.target]
            elif isinstance(n, ast.Delete):
                tg = n.targets
            for t in tg:
                if "self" in {x.id for x in ast.walk(t) if isinstance(x, ast.Name)}:
                    out.append(ast.unparse(t))
            if isinstance(n, ast.Call) and ast.unparse(n.func).startswith("self.") and not ast.unparse(n.func).startswith("self.sys_log."):
                out.append(ast.unparse(n.func) + "()")
            if isinstance(n, (ast.Global, ast.Nonlocal)):
                out.append("global")
        return sorted(out)
    fbr_pure = self_reads(fbr) == ["default_route", "routes"] and self_writes(fbr) == []
    if not fbr_pure:
        raise ValueError(f"find_best_route reads {self_reads(fbr)} and writes/calls {self_writes(fbr)}: not a function of routes/default_route")
    for dec_ in fbr.decorator_list:
        raise ValueError(f"find_best_route is decorated ({ast.unparse(dec_)}): a cache?")
    sdr = find_method(rt_cls, "set_default_route_next_hop_ip_address")
    if self_writes(sdr) != ["self.default_route", "self.default_route.next_hop_ip_address"]:
        raise ValueError(f"set_default_route_next_hop_ip_address writes {self_writes(sdr)}")
    # --- RouteEntry refuses a NaN metric at construction (inf stays legal)
    re_cls = class_def(tree, "RouteEntry")
    nan_val = False
    for fn_ in re_cls.body:
        if isinstance(fn_, ast.FunctionDef) and any(ast.unparse(d_) == "field_validator('metric')" for d_ in fn_.decorator_list):
            arg = fn_.args.args[1].arg
            for x in fn_.body:
                if (isinstance(x, ast.If) and ast.unparse(x.test) == f"{arg} != {arg}" and len(x.body) == 1 and isinstance(x.body[0], ast.Raise)
                        and ast.unparse(x.body[0].exc).startswith("ValueError(")):
                    nan_val = True
            if ast.unparse(fn_.body[-1]) != f"return {arg}":
                raise ValueError("RouteEntry metric validator does not return the value unchanged")
    if not nan_val:
        raise ValueError("RouteEntry: no `@field_validator('metric')` raising ValueError for NaN (`v != v`) found")
    add = find_method(class_def(tree, "RouteTable"), "add_route")
    if self_writes(add) != ["self.routes.append()"]:
        raise ValueError(f"add_route writes {self_writes(add)}")
    appends = [ast.unparse(n) for n in ast.walk(add) if isinstance(n, ast.Call) and ast.unparse(n.func).startswith("self.routes.")]
    if appends != ["self.routes.append(route)"]:
        raise ValueError(f"add_route does not simply append: {appends}")

    # --- acceptance tests
    nic = find_method(class_def(parse("simulator/network/hardware/nodes/host/host_node.py"), "NIC"), "receive_frame")
    acc = None
    for node in ast.walk(nic):
        if isinstance(node, ast.If) and ast.unparse(node.test) == "frame.ethernet.dst_mac_addr == 'ff:ff:ff:ff:ff:ff'":
            acc = node
    if acc is None or len(acc.body) != 1 or len(acc.orelse) != 1:
        raise ValueError("NIC.receive_frame: broadcast/unicast acceptance test not found")
    b, u = acc.body[0], acc.orelse[0]
    if not (isinstance(b, ast.If) and [ast.unparse(x) for x in b.body] == ["accept_frame = True"] and not b.orelse
            and isinstance(u, ast.If) and [ast.unparse(x) for x in u.body] == ["accept_frame = True"] and not u.orelse):
        raise ValueError("NIC.receive_frame: unexpected acceptance branches")
    bcast_ok = ast.unparse(b.test) == "frame.ip.dst_ip_address in {self.ip_address, self.ip_network.broadcast_address}"
    ut = ast.unparse(u.test)
    if ut == "frame.ethernet.dst_mac_addr == self.mac_address":
        ucast_ip = False
    elif ut == ("frame.ethernet.dst_mac_addr == self.mac_address and "
                "self._connected_node.ip_is_network_interface(frame.ip.dst_ip_address)"):
        ucast_ip = True
    else:
        raise ValueError(f"NIC.receive_frame: unrecognised unicast test {ut}")
    if not bcast_ok:
        raise ValueError(f"NIC.receive_frame: unrecognised broadcast test {ast.unparse(b.test)}")
    ri = find_method(class_def(tree, "RouterInterface"), "receive_frame")
    ri_tests = [ast.unparse(n.test) for n in ast.walk(ri) if isinstance(n, ast.If)]
    if "frame.ethernet.dst_mac_addr == self.mac_address or frame.ethernet.dst_mac_addr == 'ff:ff:ff:ff:ff:ff'" not in ri_tests:
        raise ValueError("RouterInterface.receive_frame: acceptance test not recognised")
    # --- Router.receive_frame: order of guards and calls
    rr = find_method(router, "receive_frame")
    order = []
    for node in ast.walk(rr):
        pass
    src_lines = []
    for st in rr.body:
        txt = ast.unparse(st)
        if "operating_state != NodeOperatingState.ON" in txt:
            order.append("on")
        elif "self.subject_to_acl" in txt:
            order.append("acl")
        elif txt.startswith("if not permitted"):
            order.append("deny-return")
        elif "add_arp_cache_entry" in txt:
            order.append("learn")
        elif "check_send_frame_to_session_manager" in txt:
            if not (isinstance(st, ast.If) and ast.unparse(st.body[0]) == "self.session_manager.receive_frame(frame, from_network_interface)"
                    and ast.unparse(st.orelse[0]) == "self.process_frame(frame, from_network_interface)"):
                raise ValueError("Router.receive_frame: unexpected hand-over")
            order.append("software-if-own-else-process")
    cs = find_method(router, "check_send_frame_to_session_manager")
    cs_ifs = [ast.unparse(n.test) for n in ast.walk(cs) if isinstance(n, ast.If)]
    own_test = "self.ip_is_router_interface(dst_ip_address) and (frame.icmp or dst_port in self.software_manager.get_open_ports())"
    if own_test not in cs_ifs:
        raise ValueError("check_send_frame_to_session_manager: test not recognised")

    # --- WirelessAccessPoint.receive_frame: the same shape and acceptance test as RouterInterface
    wap_cls = class_def(parse("simulator/network/hardware/nodes/network/wireless_router.py"), "WirelessAccessPoint")
    wap_k = _rx_shape(wap_cls)
    wap_tests = [ast.unparse(n.test) for n in ast.walk(find_method(wap_cls, "receive_frame")) if isinstance(n, ast.If)]
    wap_acc = "frame.ethernet.dst_mac_addr == self.mac_address or frame.ethernet.dst_mac_addr == 'ff:ff:ff:ff:ff:ff'" in wap_tests
    # --- AirSpace.transmit: every OTHER enabled interface on the sender's frequency receives the one frame object
    air = find_method(class_def(parse("simulator/network/airspace.py"), "AirSpace"), "transmit")
    air_loop = next((s for s in air.body if isinstance(s, ast.For)), None)
    if air_loop is None or len(air_loop.body) != 1 or not isinstance(air_loop.body[0], ast.If):
        raise ValueError("AirSpace.transmit: unexpected shape")
    air_ok = (ast.unparse(air_loop.body[0].test) == "wireless_interface != sender_network_interface and wireless_interface.enabled"
              and [ast.unparse(x) for x in air_loop.body[0].body] == ["wireless_interface.receive_frame(frame)"])
    if not air_ok:
        raise ValueError("AirSpace.transmit: unexpected receiver test")
    # --- SessionManager.resolve_outbound_network_interface: enabled local network, else (not for the gateway itself) the gateway
    sm = find_method(class_def(parse("simulator/system/core/session_manager.py"), "SessionManager"), "resolve_outbound_network_interface")
    sb = [x for x in sm.body if not (isinstance(x, ast.Expr) and isinstance(x.value, ast.Constant))]
    if not (isinstance(sb[0], ast.For) and ast.unparse(sb[0].iter) == "self.node.network_interfaces.values()" and len(sb[0].body) == 1
            and isinstance(sb[0].body[0], ast.If)
            and ast.unparse(sb[0].body[0].test) == "dst_ip_address in network_interface.ip_network and network_interface.enabled"
            and [ast.unparse(x) for x in sb[0].body[0].body] == ["return network_interface"]):
        raise ValueError("resolve_outbound_network_interface: unexpected local-network loop")
    if ast.unparse(sb[-1]) != "return self.software_manager.arp.get_default_gateway_network_interface()":
        raise ValueError("resolve_outbound_network_interface: unexpected fallback")
    mid = sb[1:-1]
    if not mid:
        gw_guard = False
    elif (len(mid) == 2 and ast.unparse(mid[0]) == "default_gateway = getattr(self.node.config, 'default_gateway', None)"
          and isinstance(mid[1], ast.If) and ast.unparse(mid[1].test) == "default_gateway and IPv4Address(dst_ip_address) == default_gateway"
          and [ast.unparse(x) for x in mid[1].body] == ["return None"] and not mid[1].orelse):
        gw_guard = True
    else:
        raise ValueError("resolve_outbound_network_interface: unrecognised statements between the loop and the fallback")

    # --- what the ranking argument of the termination proof (Props/C08Termination.lean) rests on
    # (1) Firewall._process_dmz_outbound_frame: a layer-2 broadcast that is not for the firewall is dropped BEFORE the look-ups
    fw_tree = parse("simulator/network/hardware/nodes/network/firewall.py")
    dmz = find_method(class_def(fw_tree, "Firewall"), "_process_dmz_outbound_frame")
    hand = [s2 for s2 in dmz.body if isinstance(s2, ast.If) and "check_send_frame_to_session_manager" in ast.unparse(s2.test)]
    if len(hand) != 1 or not hand[0].orelse:
        raise ValueError("_process_dmz_outbound_frame: hand-over `if self.check_send_frame_to_session_manager(frame): ... else: ...` not found")
    els = hand[0].orelse
    lookups = [k2 for k2, s2 in enumerate(els) if "get_arp_cache_network_interface" in ast.unparse(s2) or "find_best_route" in ast.unparse(s2)]
    if not lookups:
        raise ValueError("_process_dmz_outbound_frame: no outbound look-up found in the else branch")
    g0 = els[0]
    dmz_guard = (isinstance(g0, ast.If) and ast.unparse(g0.test) == "frame.is_broadcast" and len(g0.body) == 1
                 and isinstance(g0.body[0], ast.Return) and g0.body[0].value is None and not g0.orelse and min(lookups) > 0)
    # (2) a router resolves its outbound interface without ARP: the base ARP.get_default_gateway_network_interface answers None and
    # RouterARP does not override it (RouterSessionManager.resolve_outbound_network_interface = local loop + route table only)
    arp_tree = parse("simulator/system/services/arp/arp.py")
    gdg = find_method(class_def(arp_tree, "ARP"), "get_default_gateway_network_interface")
    gdg_body = [s2 for s2 in gdg.body if not (isinstance(s2, ast.Expr) and isinstance(s2.value, ast.Constant))]
    base_none = len(gdg_body) == 1 and ast.unparse(gdg_body[0]) == "return None"
    rarp = class_def(tree, "RouterARP")
    router_inherits = not any(isinstance(n2, ast.FunctionDef) and n2.name in ("get_default_gateway_network_interface", "send_arp_reply", "send_arp_request")
                              for n2 in rarp.body)
    rsm = find_method(class_def(tree, "RouterSessionManager"), "resolve_outbound_network_interface")
    rsm_calls = sorted({ast.unparse(n2.func) for n2 in ast.walk(rsm) if isinstance(n2, ast.Call)})
    if rsm_calls != ["self.node.route_table.find_best_route", "super", "super().resolve_outbound_network_interface"]:
        raise ValueError(f"RouterSessionManager.resolve_outbound_network_interface: unexpected calls {rsm_calls}")
    # (3) replies start nothing: ARP._process_arp_reply only learns, ICMP._process_icmp_echo_reply only counts
    par = find_method(class_def(arp_tree, "ARP"), "_process_arp_reply")
    par_calls = sorted({ast.unparse(n2.func) for n2 in ast.walk(par) if isinstance(n2, ast.Call)})
    reply_learns = par_calls == ["self.add_arp_cache_entry", "self.sys_log.info"]
    icmp_tree = parse("simulator/system/services/icmp/icmp.py")
    per = find_method(class_def(icmp_tree, "ICMP"), "_process_icmp_echo_reply")
    per_calls = sorted({ast.unparse(n2.func) for n2 in ast.walk(per) if isinstance(n2, ast.Call)})
    echo_counts = per_calls == ["frame.transmission_duration", "len", "self.request_replies.get", "self.sys_log.info"]
    if not (reply_learns and echo_counts):
        raise ValueError(f"reply handlers call something new: _process_arp_reply {par_calls}, _process_icmp_echo_reply {per_calls}")
    # (4) ARP requests are layer-2 broadcasts, ARP replies go to the requester's pair (ARP.send_arp_request / send_arp_reply)
    sreq = find_method(class_def(arp_tree, "ARP"), "send_arp_request")
    sreq_txt = ast.unparse(sreq)
    req_fields = ("sender_ip_address=outbound_network_interface.ip_address" in sreq_txt
                  and "sender_mac_addr=outbound_network_interface.mac_address" in sreq_txt)
    srep = find_method(class_def(arp_tree, "ARP"), "send_arp_reply")
    srep_txt = ast.unparse(srep)
    rep_to_requester = "dst_ip_address=arp_reply.target_ip_address" in srep_txt

    # --- host side: SessionManager.resolve_outbound_transmission_details, unicast branch, TRANSLATED statement by statement.
    # The decision "destination's own MAC or the default gateway's" must be a function of the interfaces (subnet + enabled) alone;
    # the ARP cache is consulted for the destination only INSIDE the on-link test, and for the gateway otherwise.
    rotd = find_method(class_def(parse("simulator/system/core/session_manager.py"), "SessionManager"), "resolve_outbound_transmission_details")
    bc_if = [x for x in rotd.body if isinstance(x, ast.If) and ast.unparse(x.test) == "isinstance(dst_ip_address, IPv4Network)"]
    if len(bc_if) != 1 or not bc_if[0].orelse:
        raise ValueError("resolve_outbound_transmission_details: broadcast / unicast split not found")
    uni = bc_if[0].orelse
    A = "self.software_manager.arp."

    def tr_test(e) -> str:
        if isinstance(e, ast.BoolOp) and isinstance(e.op, ast.And):
            return "(" + " && ".join(tr_test(v) for v in e.values) + ")"
        t = ast.unparse(e)
        if t == "dst_ip_address in network_interface.ip_network":
            return "inNet"
        if t == "network_interface.enabled":
            return "enabled"
        raise ValueError(f"resolve_outbound_transmission_details: unknown term in the on-link test: {t}")

    def tr_stmt(x) -> str:
        t = ast.unparse(x)
        table = {
            "use_default_gateway = True": "gw := true",
            "use_default_gateway = False": "gw := false",
            f"dst_mac_address = {A}get_arp_cache_mac_address(dst_ip_address)": "mac := arpMac dst",
            f"outbound_network_interface = {A}get_arp_cache_network_interface(dst_ip_address)": "nic := arpIfc dst",
            f"dst_mac_address = {A}get_default_gateway_mac_address()": "mac := arpMac gateway",
            f"outbound_network_interface = {A}get_default_gateway_network_interface()": "nic := arpIfc gateway",
            "break": "break",
        }
        if t in table:
            return table[t]
        if isinstance(x, ast.For) and ast.unparse(x.iter) == "self.node.network_interfaces.values()" and ast.unparse(x.target) == "network_interface" and not x.orelse:
            return "for nic: [" + "; ".join(tr_stmt(y) for y in x.body) + "]"
        if isinstance(x, ast.If) and not x.orelse:
            tt = ast.unparse(x.test)
            cond = {"dst_mac_address": "mac?", "use_default_gateway": "gw?"}.get(tt) or ("onLink " + tr_test(x.test))
            return f"if {cond}: [" + "; ".join(tr_stmt(y) for y in x.body) + "]"
        raise ValueError(f"resolve_outbound_transmission_details (unicast branch): statement not in the translation table: {t[:120]}")
    host_steps = [tr_stmt(x) for x in uni if not (isinstance(x, ast.Expr) and isinstance(x.value, ast.Constant))]
    onlink = None
    for x in ast.walk(bc_if[0]):
        if isinstance(x, ast.If) and x in [y for f in uni if isinstance(f, ast.For) for y in f.body]:
            onlink = tr_test(x.test)
    if onlink is None:
        raise ValueError("resolve_outbound_transmission_details: on-link test not found")
    hn_tree = parse("simulator/network/hardware/nodes/host/host_node.py")
    harp = class_def(hn_tree, "HostARP")
    gw_only = True
    for name, getter in (("get_default_gateway_mac_address", "self.get_arp_cache_mac_address"),
                         ("get_default_gateway_network_interface", "self.get_arp_cache_network_interface")):
        fn = find_method(harp, name)
        calls = [(ast.unparse(c.func), [ast.unparse(a) for a in c.args]) for c in ast.walk(fn) if isinstance(c, ast.Call)]
        if calls != [(getter, ["self.software_manager.node.config.default_gateway"])]:
            gw_only = False
    if not gw_only:
        raise ValueError("HostARP.get_default_gateway_*: expected exactly one cache look-up, of the configured default gateway")

    # --- the receive path of an application payload: SessionManager.receive_frame hands the frame's destination port and IP
    # protocol to SoftwareManager.receive_payload_from_session_manager, which looks the receiver up under exactly that key; the
    # session of an inbound frame is keyed by the frame's SOURCE address, and a send through a session goes to that address
    sm_cls = class_def(parse("simulator/system/core/session_manager.py"), "SessionManager")
    rf = find_method(sm_cls, "receive_frame")
    rf_calls = [c for c in ast.walk(rf) if isinstance(c, ast.Call) and ast.unparse(c.func) == "self.software_manager.receive_payload_from_session_manager"]
    if len(rf_calls) != 1:
        raise ValueError("SessionManager.receive_frame: expected exactly one hand-over to the software manager")
    kw = {k.arg: ast.unparse(k.value) for k in rf_calls[0].keywords}
    if kw.get("port") != "dst_port" or kw.get("protocol") != "frame.ip.protocol" or kw.get("frame") != "frame":
        raise ValueError(f"SessionManager.receive_frame: unexpected hand-over arguments {kw}")
    dp = sorted(ast.unparse(x.value) for x in ast.walk(rf) if isinstance(x, ast.Assign) and ast.unparse(x.targets[0]) == "dst_port")
    if dp != ["None", "PORT_LOOKUP['NONE']", "frame.tcp.dst_port", "frame.udp.dst_port"]:
        raise ValueError(f"SessionManager.receive_frame: dst_port is taken from {dp}")
    swm = find_method(class_def(parse("simulator/system/core/software_manager.py"), "SoftwareManager"), "receive_payload_from_session_manager")
    mr = [ast.unparse(x.value) for x in ast.walk(swm) if isinstance(x, ast.Assign) and ast.unparse(x.targets[0]) == "main_receiver"]
    if mr != ["self.port_protocol_mapping.get((port, protocol), None)"]:
        raise ValueError(f"receive_payload_from_session_manager: main receiver is {mr}")
    gsk = find_method(sm_cls, "_get_session_key")
    wia = sorted({ast.unparse(x.value) for x in ast.walk(gsk) if isinstance(x, ast.Assign) and ast.unparse(x.targets[0]) == "with_ip_address"})
    if wia != ["frame.ip.dst_ip_address", "frame.ip.src_ip_address"]:
        raise ValueError(f"_get_session_key: with_ip_address is taken from {wia}")
    first_wia = next(x for x in gsk.body if isinstance(x, ast.Assign) and ast.unparse(x.targets[0]) == "with_ip_address")
    if ast.unparse(first_wia.value) != "frame.ip.src_ip_address":
        raise ValueError("_get_session_key: the default (inbound) peer address is not the frame's source address")
    sess_dst = [ast.unparse(x.value) for x in ast.walk(rotd) if isinstance(x, ast.Assign) and ast.unparse(x.targets[0]) == "dst_ip_address"
                and "session" in ast.unparse(x.value)]
    if sess_dst != ["session.with_ip_address"]:
        raise ValueError(f"resolve_outbound_transmission_details: a session send goes to {sess_dst}")

    # --- Switch: learning is UNCONDITIONAL on every received frame, before the table is read, and a known MAC seen on another
    # port is re-pointed (learned forwarding state follows topology changes)
    sw_cls = class_def(parse("simulator/network/hardware/nodes/network/switch.py"), "Switch")
    srf = [x for x in find_method(sw_cls, "receive_frame").body if not (isinstance(x, ast.Expr) and isinstance(x.value, ast.Constant))]
    srf_txt = [ast.unparse(x) for x in srf[:4]]
    if srf_txt != ["src_mac = frame.ethernet.src_mac_addr", "dst_mac = frame.ethernet.dst_mac_addr",
                   "self._add_mac_table_entry(src_mac, from_network_interface)", "outgoing_port = self.mac_address_table.get(dst_mac)"]:
        raise ValueError(f"Switch.receive_frame: learning is not the unconditional third statement before the table read: {srf_txt}")
    if len(srf) != 5 or not isinstance(srf[4], ast.If) or ast.unparse(srf[4].test) != "outgoing_port and dst_mac.lower() != 'ff:ff:ff:ff:ff:ff'":
        raise ValueError("Switch.receive_frame: unexpected forwarding test")
    amt = [x for x in find_method(sw_cls, "_add_mac_table_entry").body if not (isinstance(x, ast.Expr) and isinstance(x.value, ast.Constant))]
    ok_amt = (len(amt) == 2 and ast.unparse(amt[0]) == "mac_table_port = self.mac_address_table.get(mac_address)" and isinstance(amt[1], ast.If)
              and ast.unparse(amt[1].test) == "not mac_table_port"
              and ast.unparse(amt[1].body[0]) == "self.mac_address_table[mac_address] = switch_port"
              and len(amt[1].orelse) == 1 and isinstance(amt[1].orelse[0], ast.If)
              and ast.unparse(amt[1].orelse[0].test) == "mac_table_port != switch_port" and not amt[1].orelse[0].orelse)
    if ok_amt:
        moved = [ast.unparse(x) for x in amt[1].orelse[0].body if not ast.unparse(x).startswith("self.sys_log")]
        ok_amt = moved == ["self.mac_address_table.pop(mac_address)", "self._add_mac_table_entry(mac_address, switch_port)"]
    if not ok_amt:
        raise ValueError("Switch._add_mac_table_entry: not `absent -> insert; present on another port -> pop and insert`")

    def lst(xs):
        return "[" + ", ".join(f'("{n}", {k})' for n, k in xs) + "]"
    return f"""namespace Primaite.Gen.Forward
/-- WirelessAccessPoint.receive_frame: enabled → decrement → `ttl < K` → the RouterInterface acceptance test (own MAC or broadcast) -/
def wapDropBelow : Int := {wap_k}
def wapAcceptsLikeRouterInterface : Bool := {"true" if wap_acc else "false"}
/-- AirSpace.transmit hands the ONE frame object to every other enabled interface on the sender's frequency -/
def airTransmitToOtherEnabled : Bool := true
/-- SessionManager.resolve_outbound_network_interface: first enabled interface whose network contains the destination; else
`None` when the destination is the default gateway itself (repair F-57); else the gateway's interface from ARP -/
def gatewayNotViaGateway : Bool := {"true" if gw_guard else "false"}
/-- Firewall._process_dmz_outbound_frame: `if frame.is_broadcast: return` is the first statement after the hand-over test, before
`get_arp_cache_network_interface` / `find_best_route` (repair F-C08-r3-1) -/
def dmzOutboundDropsBroadcastFirst : Bool := {"true" if dmz_guard else "false"}
/-- a router resolves its outbound interface without ARP: base `ARP.get_default_gateway_network_interface` is `return None`, RouterARP
does not override it (nor send_arp_request / send_arp_reply), RouterSessionManager.resolve_outbound_network_interface calls only
the inherited local loop and `find_best_route` -/
def routerResolvesOutboundWithoutArp : Bool := {"true" if (base_none and router_inherits) else "false"}
/-- replies start nothing: `_process_arp_reply` = log + `add_arp_cache_entry`; `_process_icmp_echo_reply` = log + count -/
def repliesStartNothing : Bool := {"true" if (reply_learns and echo_counts) else "false"}
/-- an ARP request carries the (ip, mac) pair of the interface it leaves by; the reply is addressed to the request's sender -/
def arpPairsGenuine : Bool := {"true" if (req_fields and rep_to_requester) else "false"}
/-- SessionManager.resolve_outbound_transmission_details, unicast branch, statement by statement (strict translation table:
any other statement — e.g. a look-up of the destination in the ARP cache before the subnet test — raises) -/
def hostUnicastSteps : List String := [{", ".join('"%s"' % x for x in host_steps)}]
/-- the on-link test of its loop, translated from `{onlink}` -/
def hostOnLink (inNet enabled : Bool) : Bool := {onlink}
/-- HostARP.get_default_gateway_mac_address / _network_interface look up exactly the configured default gateway -/
def hostGatewayGettersReadGatewayOnly : Bool := true
/-- an inbound payload is handed to the software `port_protocol_mapping.get((frame's destination port, frame's IP protocol))`
finds (SessionManager.receive_frame → SoftwareManager.receive_payload_from_session_manager); the session of an inbound frame is
keyed by its SOURCE address and a send through a session goes to `session.with_ip_address`: replies go to the request's source -/
def appReceiverByPortProtocolReplyToSource : Bool := true
/-- Switch.receive_frame: `_add_mac_table_entry(src_mac, from_network_interface)` is its unconditional third statement, before
`mac_address_table.get(dst_mac)`; `_add_mac_table_entry`: absent -> insert, present on ANOTHER port -> pop and insert -/
def switchLearnsUnconditionallyAndRepoints : Bool := true
/-- `IPPacket.ttl` default -/
def defaultTtl : Int := {ttl}
/-- `Frame.decrement_ttl`: `self.ip.ttl -= k` -/
def decrementBy : Int := {dec_by}
/-- receive_frame of each interface class: enabled → decrement → `if frame.ip and frame.ip.ttl < K: return False` (K listed) -/
def rxDropBelow : List (String × Int) := {lst(rx)}
/-- Router.process_frame / route_frame: decrement → `ttl < K` test → header rewrite → send_frame (K listed); no send without it -/
def hopDropBelow : List (String × Int) := {lst(hops)}
/-- Router.process_frame starts with `if frame.is_broadcast: return` -/
def processDropsBroadcast : Bool := {"true" if guard else "false"}
/-- NIC.receive_frame: a broadcast needs the NIC's own or its subnet's broadcast IP address; a unicast frame needs the NIC's
MAC address and (flag) an IP address of the node -/
def nicUnicastNeedsNodeIp : Bool := {"true" if ucast_ip else "false"}
/-- Router.receive_frame: order of guards and calls; software only for an own address (and ICMP or an open port) -/
def routerReceiveOrder : List String := [{", ".join('"%s"' % o for o in order)}]
/-- find_best_route: `longest_prefix = -1`, `lowest_metric = float('inf')` (`none`), `best_route = None` -/
def initLongest : Int := -1
def ltInf (m : Int) : Option Int → Bool
  | none => true
  | some l => decide (m < l)
/-- the update test of the loop, translated from `{ast.unparse(upd.test)}` -/
def better (p l m : Int) (lo : Option Int) : Bool := {cond}
/-- find_best_route reads only `self.routes` / `self.default_route`, writes nothing, calls no method of the table, is not decorated;
RouteTable has no field besides routes / default_route / sys_log and no writer besides add_route (append) and
set_default_route_next_hop_ip_address (assign) -/
def findBestRouteIsFunctionOfTable : Bool := {"true" if fbr_pure else "false"}
/-- RouteEntry: `@field_validator("metric")` raises ValueError for NaN (`v != v`) and returns every other value unchanged -/
def routeMetricRejectsNaN : Bool := true
/-- after the loop: `if not best_route and self.default_route: best_route = self.default_route`; `add_route` appends -/
def defaultOnlyWithoutBest : Bool := true
end Primaite.Gen.Forward
"""
