"""E9b (C01): the inventory of LEAF REQUEST HANDLERS and what each of them can return.  Pure ast.

The hypothesis of `C01_responses_documented` is "every handler hands back a RequestResponse" (a handler that returns `None` or a
bool makes `AgentHistoryItem(response=…)` fail inside `step`: finding class F-2).  The handlers are found exactly as C05x's
request-schema extractor finds them (harness/extract/request_schema.py, imported read-only: its class loader and hierarchy): every
`add_request(name, RequestType(func=…))` inside an `_init_request_manager` whose `func` is a lambda or a function defined in that
method.  For each one the RETURN DISCIPLINE is decided syntactically:

    response          every path ends in `return <R>` / the lambda body is `<R>`, where <R> is `RequestResponse(...)`,
                      `RequestResponse.from_bool(...)`, a call of a function or method whose definition is annotated `-> RequestResponse`
                      (methods are resolved along the class hierarchy of the class that owns the manager; functions defined in the same
                      `_init_request_manager` by name), or a conditional expression of such;
    otherwise         the reason: which return expression is not of that form, or that the function can fall off its end.

Strict: an `add_request` whose func is neither a lambda, a local function nor a manager raises (the schema extractor would too).
"""
from __future__ import annotations

import ast
from typing import Dict, List, Optional, Tuple

from harness.extract import request_schema as rs

GEN_NAME = "EpisodeHandlers"
RESP = ("RequestResponse", "'RequestResponse'", '"RequestResponse"')


def _annotated_response(fn: Optional[ast.FunctionDef]) -> bool:
    return fn is not None and fn.returns is not None and ast.unparse(fn.returns) in RESP


def _method(classes, cname: str, name: str) -> Optional[ast.FunctionDef]:
    for c in rs.mro(classes, cname):
        m = classes[c].method(name) if c in classes else None
        if m is not None:
            return m
    return None


def expr_verdict(e: ast.expr, classes, cname: str, local_defs: Dict[str, ast.FunctionDef]) -> Optional[str]:
    """None = the expression is a RequestResponse by construction; else why not."""
    if isinstance(e, ast.IfExp):
        return expr_verdict(e.body, classes, cname, local_defs) or expr_verdict(e.orelse, classes, cname, local_defs)
    if isinstance(e, ast.Call):
        f = ast.unparse(e.func)
        if f in ("RequestResponse", "RequestResponse.from_bool"):
            return None
        if isinstance(e.func, ast.Name) and e.func.id in local_defs:
            return None if _annotated_response(local_defs[e.func.id]) else f"calls local `{f}` which is not annotated -> RequestResponse"
        if isinstance(e.func, ast.Attribute) and isinstance(e.func.value, ast.Name) and e.func.value.id == "self":
            m = _method(classes, cname, e.func.attr)
            if m is None:
                return f"calls `{f}` which is not a method of the class hierarchy"
            return None if _annotated_response(m) else f"calls `{f}` which is not annotated -> RequestResponse"
        return f"calls `{f}` (callee not resolvable syntactically)"
    return f"returns `{ast.unparse(e)[:60]}` (not a RequestResponse constructor or an annotated call)"


def always_returns(stmts: List[ast.stmt]) -> bool:
    if not stmts:
        return False
    last = stmts[-1]
    if isinstance(last, (ast.Return, ast.Raise)):
        return True
    if isinstance(last, ast.If):
        return bool(last.orelse) and always_returns(last.body) and always_returns(last.orelse)
    if isinstance(last, ast.Try):
        return (always_returns(last.finalbody) or
                ((always_returns(last.body) or always_returns(last.orelse)) and all(always_returns(h.body) for h in last.handlers)))
    if isinstance(last, ast.With):
        return always_returns(last.body)
    return False


def func_verdict(fn: ast.FunctionDef, classes, cname: str, local_defs) -> Optional[str]:
    class V(ast.NodeVisitor):
        def __init__(self):
            self.bad: List[str] = []

        def visit_FunctionDef(self, node):      # nested definitions have their own returns
            if node is fn:
                self.generic_visit(node)

        def visit_Lambda(self, node):
            return

        def visit_Return(self, node):
            if node.value is None:
                self.bad.append("bare `return` (None)")
            else:
                w = expr_verdict(node.value, classes, cname, local_defs)
                if w:
                    self.bad.append(w)
    v = V()
    v.visit(fn)
    if v.bad:
        return v.bad[0]
    if not always_returns(fn.body):
        return "can fall off the end of the function (returns None)"
    return None


def inventory() -> List[Tuple[str, str, str, str]]:
    """(class, manager, key, verdict) of every leaf handler; verdict "response" or the reason."""
    classes = rs.load_classes()
    out = []
    for cname in sorted(classes):
        fn = classes[cname].method("_init_request_manager")
        if fn is None:
            continue
        local_defs = {st.name: st for st in fn.body if isinstance(st, ast.FunctionDef)}
        for node in ast.walk(fn):
            if not (isinstance(node, ast.Call) and isinstance(node.func, ast.Attribute) and node.func.attr == "add_request"):
                continue
            a = rs._kwargs(node, ["name", "request_type"])
            rt = a.get("request_type")
            if not (isinstance(rt, ast.Call) and ast.unparse(rt.func) == "RequestType"):
                raise ValueError(f"{cname}: request_type is not RequestType(...)")
            func = rs._kwargs(rt, ["func", "validator"]).get("func")
            key = a["name"].value if isinstance(a.get("name"), ast.Constant) else ast.unparse(a.get("name"))
            mgr = ast.unparse(node.func.value)
            if isinstance(func, ast.Lambda):
                why = expr_verdict(func.body, classes, cname, local_defs)
            elif isinstance(func, ast.Name) and func.id in local_defs:
                why = func_verdict(local_defs[func.id], classes, cname, local_defs)
            elif "request_manager" in ast.unparse(func) or (ast.unparse(func).startswith("self._") and ast.unparse(func).endswith("_manager")):
                continue      # an edge to another manager, not a handler
            else:
                raise ValueError(f"{cname}: unclassifiable func in add_request: {ast.unparse(func)[:120]}")
            mname = cname if mgr == "rm" else (cname + "." + mgr[5:] if mgr.startswith("self.") else mgr)
            out.append((cname, mname, str(key), "response" if why is None else why))
    return out


def _q(s: str) -> str:
    return '"' + s.replace("\\", "\\\\").replace('"', "'") + '"'


def emit() -> str:
    inv = inventory()
    if len(inv) < 50:
        raise ValueError(f"only {len(inv)} leaf handlers found: the inventory is not credible")
    rows = ",\n  ".join(f"({_q(c)}, {_q(m)}, {_q(k)}, {_q(v)})" for c, m, k, v in inv)
    return f"""namespace Primaite.Gen.EpisodeHandlers
/-- every leaf request handler registered in an `_init_request_manager` under src/primaite/simulator:
(class, manager name as in Gen/RequestSchema.lean, key, return discipline) - "response" = every path returns a RequestResponse by construction -/
def leafHandlers : List (String × String × String × String) := [
  {rows}]
end Primaite.Gen.EpisodeHandlers
"""
