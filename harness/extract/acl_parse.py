"""C07, value layer of rule fields: PORT_LOOKUP / PROTOCOL_LOOKUP / VALID_PROTOCOLS, `port_validator` and `protocol_validator`
translated statement by statement, and the type annotations through which the four surfaces send a port / protocol.
Pure `ast`; strict: an unrecognised shape raises (the obligation `extract:AclParse` breaks)."""
import ast

GEN_NAME = "AclParse"

from harness.extract.util import class_def, find_function, find_method, parse

PORT = "utils/validation/port.py"
PROTO = "utils/validation/ip_protocol.py"
ROUTER = "simulator/network/hardware/nodes/network/router.py"
ACTIONS = "game/agent/actions/acl.py"


class Shape(ValueError):
    pass


def _need(cond, what):
    if not cond:
        raise Shape(what)


def _ls(x: str) -> str:
    return '"' + x.replace("\\", "\\\\").replace('"', '\\"') + '"'


def _module_value(tree: ast.Module, name: str) -> ast.AST:
    hits = []
    for n in tree.body:
        if isinstance(n, ast.AnnAssign) and isinstance(n.target, ast.Name) and n.target.id == name and n.value is not None:
            hits.append(n.value)
        if isinstance(n, ast.Assign) and any(isinstance(t, ast.Name) and t.id == name for t in n.targets):
            hits.append(n.value)
    _need(len(hits) == 1, f"{name}: exactly one module-level assignment expected, found {len(hits)}")
    # nothing else in the module may write to the table (subscript store, .update, .pop, del)
    for n in ast.walk(tree):
        if isinstance(n, (ast.Subscript, ast.Attribute)) and isinstance(getattr(n, "value", None), ast.Name) and n.value.id == name:
            if isinstance(n, ast.Subscript) and isinstance(n.ctx, (ast.Store, ast.Del)):
                raise Shape(f"{name} is written to after its definition")
            if isinstance(n, ast.Attribute) and n.attr in ("update", "pop", "clear", "setdefault", "append", "extend", "remove", "insert", "popitem"):
                raise Shape(f"{name}.{n.attr} in the module")
    return hits[0]


def _int_const(e: ast.AST) -> int:
    if isinstance(e, ast.UnaryOp) and isinstance(e.op, ast.USub) and isinstance(e.operand, ast.Constant) and type(e.operand.value) is int:
        return -e.operand.value
    _need(isinstance(e, ast.Constant) and type(e.value) is int, f"integer literal expected, got {ast.unparse(e)}")
    return e.value


def _dict_table(v: ast.AST, name: str, val):
    """`dict(K=v, …)` or `{"K": v, …}` → [(K, v)]"""
    if isinstance(v, ast.Call) and isinstance(v.func, ast.Name) and v.func.id == "dict":
        _need(not v.args and all(k.arg for k in v.keywords), f"{name}: dict(...) with keywords only")
        items = [(k.arg, val(k.value)) for k in v.keywords]
    elif isinstance(v, ast.Dict):
        _need(all(isinstance(k, ast.Constant) and isinstance(k.value, str) for k in v.keys), f"{name}: string keys")
        items = [(k.value, val(x)) for k, x in zip(v.keys, v.values)]
    else:
        raise Shape(f"{name}: dict literal expected, got {ast.unparse(v)[:60]}")
    keys = [k for k, _ in items]
    _need(len(set(keys)) == len(keys), f"{name}: a key is written twice (the later one would win)")
    return items


def _str_const(e: ast.AST) -> str:
    _need(isinstance(e, ast.Constant) and isinstance(e.value, str), f"string literal expected, got {ast.unparse(e)}")
    return e.value


def _lean_int(i: int) -> str:
    return str(i) if i >= 0 else f"({i})"


# ------------------------------------------------------------------------------------------ the validators
class _Tr:
    """`def f(v): [if C: v = E]* [if C: return E]* raise …` over the primitives of Model/AclParse.lean."""

    def __init__(self, param: str, tables: dict):
        self.p = param
        self.tables = tables  # python name -> (lean name, kind) ; kind in int-dict | str-dict | str-list
        self.ver = 0

    def cur(self) -> str:
        return f"{self.p}_{self.ver}"

    def val(self, e: ast.AST) -> str:
        if isinstance(e, ast.Name) and e.id == self.p:
            return self.cur()
        if (isinstance(e, ast.Subscript) and isinstance(e.value, ast.Name) and e.value.id in self.tables
                and isinstance(e.slice, ast.Name) and e.slice.id == self.p):
            lean, kind = self.tables[e.value.id]
            _need(kind in ("int-dict", "str-dict"), f"subscript of {e.value.id}")
            return f"(PyVal.{'getInt' if kind == 'int-dict' else 'getStr'} {lean} {self.cur()})"
        raise Shape(f"value expression {ast.unparse(e)}")

    def cond(self, e: ast.AST, guards=frozenset()) -> str:
        if isinstance(e, ast.BoolOp) and isinstance(e.op, ast.And):
            parts, g = [], set(guards)
            for v in e.values:
                parts.append(self.cond(v, frozenset(g)))
                if isinstance(v, ast.Call) and ast.unparse(v) == f"isinstance({self.p}, int)":
                    g.add("int")
                if isinstance(v, ast.Call) and ast.unparse(v) == f"isinstance({self.p}, str)":
                    g.add("str")
            return "(" + " && ".join(parts) + ")"
        if isinstance(e, ast.Call) and isinstance(e.func, ast.Name) and e.func.id == "isinstance" and len(e.args) == 2:
            _need(isinstance(e.args[0], ast.Name) and e.args[0].id == self.p and isinstance(e.args[1], ast.Name)
                  and e.args[1].id in ("str", "int"), f"isinstance test {ast.unparse(e)}")
            return f"{self.cur()}.{'isStr' if e.args[1].id == 'str' else 'isInt'}"
        if isinstance(e, ast.Compare) and len(e.ops) == 1 and isinstance(e.ops[0], ast.In):
            _need(isinstance(e.left, ast.Name) and e.left.id == self.p and isinstance(e.comparators[0], ast.Name)
                  and e.comparators[0].id in self.tables, f"membership test {ast.unparse(e)}")
            lean, kind = self.tables[e.comparators[0].id]
            return f"(PyVal.{'inStrs' if kind == 'str-list' else 'inKeys'} {lean} {self.cur()})"
        if isinstance(e, ast.Compare) and len(e.ops) == 2 and all(isinstance(o, (ast.LtE, ast.Lt)) for o in e.ops) \
                and not all(isinstance(o, ast.LtE) for o in e.ops):
            # a strict bound somewhere: translated as written (the theorem then decides whether it is the same range)
            _need(isinstance(e.comparators[0], ast.Name) and e.comparators[0].id == self.p, f"range test {ast.unparse(e)}")
            _need("int" in guards, f"range test {ast.unparse(e)} not behind isinstance({self.p}, int)")
            sa, sb = ("true" if isinstance(o, ast.Lt) else "false" for o in e.ops)
            return f"(PyVal.betweenX {_lean_int(_int_const(e.left))} {sa} {_lean_int(_int_const(e.comparators[1]))} {sb} {self.cur()})"
        if isinstance(e, ast.Compare) and len(e.ops) == 2 and all(isinstance(o, ast.LtE) for o in e.ops):
            _need(isinstance(e.comparators[0], ast.Name) and e.comparators[0].id == self.p, f"range test {ast.unparse(e)}")
            _need("int" in guards, f"range test {ast.unparse(e)} not behind isinstance({self.p}, int) (would raise TypeError for a str)")
            return f"(PyVal.between {_lean_int(_int_const(e.left))} {_lean_int(_int_const(e.comparators[1]))} {self.cur()})"
        raise Shape(f"condition {ast.unparse(e)}")

    def body(self, stmts) -> str:
        _need(stmts, "function falls off its end (returns None)")
        s, rest = stmts[0], stmts[1:]
        if isinstance(s, ast.Raise):
            _need(isinstance(s.exc, ast.Call) and isinstance(s.exc.func, ast.Name) and s.exc.func.id == "ValueError",
                  f"raise of something other than ValueError: {ast.unparse(s)[:60]}")
            return "  none  -- raise ValueError\n"
        if isinstance(s, ast.Return):
            _need(s.value is not None, "bare return")
            return f"  some {self.val(s.value)}\n"
        _need(isinstance(s, ast.If) and not s.orelse and len(s.body) == 1, f"statement {ast.unparse(s)[:60]}")
        c = self.cond(s.test)
        inner = s.body[0]
        if isinstance(inner, ast.Return):
            return f"  if {c} then some {self.val(inner.value)} else\n" + self.body(rest)
        _need(isinstance(inner, ast.Assign) and len(inner.targets) == 1 and isinstance(inner.targets[0], ast.Name)
              and inner.targets[0].id == self.p, f"statement under `if`: {ast.unparse(inner)[:60]}")
        e = self.val(inner.value)
        old = self.cur()
        self.ver += 1
        return f"  let {self.cur()} := if {c} then {e} else {old}\n" + self.body(rest)


def _validator(tree, fname: str, lean_name: str, tables: dict) -> str:
    fn = find_function(tree, fname)
    _need(len(fn.args.args) == 1 and not fn.args.vararg and not fn.args.kwarg and not fn.decorator_list, f"{fname}: one plain parameter")
    body = [b for b in fn.body if not (isinstance(b, ast.Expr) and isinstance(b.value, ast.Constant) and isinstance(b.value.value, str))]
    tr = _Tr(fn.args.args[0].arg, tables)
    return (f"/-- `{fname}`, translated statement by statement (`none` = raises ValueError) -/\n"
            f"def {lean_name} ({tr.p}_0 : PyVal) : Option PyVal :=\n" + tr.body(body))


def _annotated_with(tree, name: str, base: str, validator: str):
    """`Name: Final[Annotated] = Annotated[base, BeforeValidator(validator)]`"""
    v = _module_value(tree, name)
    _need(ast.unparse(v) == f"Annotated[{base}, BeforeValidator({validator})]", f"{name} = {ast.unparse(v)}")


# ------------------------------------------------------------------------------------------ annotations along the surfaces
def _ann(cls: ast.ClassDef, fields) -> list:
    got = {}
    for n in cls.body:
        if isinstance(n, ast.AnnAssign) and isinstance(n.target, ast.Name) and n.target.id in fields:
            got[n.target.id] = ast.unparse(n.annotation) + ("" if n.value is None else " = " + ast.unparse(n.value))
    _need(set(got) == set(fields), f"{cls.name}: fields {sorted(set(fields) - set(got))} not declared")
    return [(f, got[f]) for f in fields]


def _params(fn: ast.FunctionDef, names) -> list:
    a = fn.args
    pos = a.args
    defaults = [None] * (len(pos) - len(a.defaults)) + list(a.defaults)
    got = {p.arg: (ast.unparse(p.annotation) if p.annotation else "?") + ("" if d is None else " = " + ast.unparse(d)) for p, d in zip(pos, defaults)}
    _need(set(names) <= set(got), f"{fn.name}: parameters {sorted(set(names) - set(got))} missing")
    return [(n, got[n]) for n in names]


def _pairs(name: str, doc: str, items) -> str:
    return (f"/-- {doc} -/\ndef {name} : List (String × String) := ["
            + ", ".join(f"({_ls(a)}, {_ls(b)})" for a, b in items) + "]\n")


def port_names():
    return [k for k, _ in _dict_table(_module_value(parse(PORT), "PORT_LOOKUP"), "PORT_LOOKUP", _int_const)]


def proto_names():
    return [k for k, _ in _dict_table(_module_value(parse(PROTO), "PROTOCOL_LOOKUP"), "PROTOCOL_LOOKUP", _str_const)]


def emit() -> str:
    pt, qt = parse(PORT), parse(PROTO)
    ports = _dict_table(_module_value(pt, "PORT_LOOKUP"), "PORT_LOOKUP", _int_const)
    protos = _dict_table(_module_value(qt, "PROTOCOL_LOOKUP"), "PROTOCOL_LOOKUP", _str_const)
    vp = _module_value(qt, "VALID_PROTOCOLS")
    _need(isinstance(vp, ast.List), "VALID_PROTOCOLS: list literal")
    valid = [_str_const(e) for e in vp.elts]
    _annotated_with(pt, "Port", "int", "port_validator")
    _annotated_with(qt, "IPProtocol", "str", "protocol_validator")
    out = ["import PrimaiteModel.Model.AclParse", "namespace Primaite.Gen.AclParse", "open Primaite.Acl.Parse", ""]
    out.append("/-- `PORT_LOOKUP` -/\ndef portLookup : List (String × Int) := ["
               + ", ".join(f"({_ls(k)}, {_lean_int(v)})" for k, v in ports) + "]")
    out.append("/-- `PROTOCOL_LOOKUP` -/\ndef protocolLookup : List (String × String) := ["
               + ", ".join(f"({_ls(k)}, {_ls(v)})" for k, v in protos) + "]")
    out.append("/-- `VALID_PROTOCOLS` -/\ndef validProtocols : List String := [" + ", ".join(_ls(v) for v in valid) + "]")
    out.append("def tables : Tables := { ports := portLookup, protos := protocolLookup, valid := validProtocols }")
    out.append(_validator(pt, "port_validator", "portValidator", {"PORT_LOOKUP": ("portLookup", "int-dict")}))
    out.append(_validator(qt, "protocol_validator", "protocolValidator",
                          {"PROTOCOL_LOOKUP": ("protocolLookup", "str-dict"), "VALID_PROTOCOLS": ("validProtocols", "str-list")}))
    rt = parse(ROUTER)
    rule = class_def(rt, "ACLRule")
    acl = class_def(rt, "AccessControlList")
    vf = ["protocol", "src_port", "dst_port"]
    out.append(_pairs("ruleFieldTypes", "`ACLRule`: declaration of the protocol / port fields", _ann(rule, vf)))
    add = find_method(acl, "add_rule")
    _need([ast.unparse(d) for d in add.decorator_list] == ["validate_call()"], "add_rule is decorated with validate_call() only")
    out.append(_pairs("addRuleParamTypes", "`add_rule`: declaration of the protocol / port parameters", _params(add, vf)))
    cfg = class_def(class_def(parse(ACTIONS), "ACLAddRuleAbstractAction"), "ConfigSchema")
    out.append(_pairs("actionFieldTypes", "`ACLAddRuleAbstractAction.ConfigSchema`: declaration of the protocol / port fields",
                      _ann(cfg, ["protocol_name", "src_port", "dst_port"])))
    # the literal each field of the action schema allows besides its type (`Union[T, Literal["X"]]` → X)
    sent = []
    for n in cfg.body:
        if isinstance(n, ast.AnnAssign) and isinstance(n.target, ast.Name):
            a = n.annotation
            lits = [x for x in ast.walk(a) if isinstance(x, ast.Subscript) and ast.unparse(x.value) == "Literal"]
            if isinstance(a, ast.Subscript) and ast.unparse(a.value) == "Union" and len(lits) == 1:
                _need(isinstance(lits[0].slice, ast.Constant) and isinstance(lits[0].slice.value, str), f"{n.target.id}: one string literal")
                sent.append((n.target.id, lits[0].slice.value))
    out.append(_pairs("actionSentinels", "`ACLAddRuleAbstractAction.ConfigSchema`: field ↦ the literal it allows besides its type", sent))
    # the two concrete schemas must not redeclare them
    for cname in ("RouterACLAddRuleAction", "FirewallACLAddRuleAction"):
        sub = class_def(class_def(parse(ACTIONS), cname), "ConfigSchema")
        for n in sub.body:
            if isinstance(n, ast.AnnAssign) and isinstance(n.target, ast.Name):
                _need(n.target.id not in ("protocol_name", "src_port", "dst_port", "src_ip", "dst_ip", "src_wildcard", "dst_wildcard",
                                          "permission", "position"), f"{cname}.ConfigSchema redeclares {n.target.id}")
            _need(not (isinstance(n, ast.FunctionDef)), f"{cname}.ConfigSchema defines {getattr(n, 'name', '?')} (a validator?)")
    for n in cfg.body:
        _need(not isinstance(n, ast.FunctionDef), f"ACLAddRuleAbstractAction.ConfigSchema defines {getattr(n, 'name', '?')} (a validator?)")
    for n in rule.body:
        if isinstance(n, ast.FunctionDef):
            _need(not n.decorator_list, f"ACLRule.{n.name} is decorated: a validator?")
    out.append("end Primaite.Gen.AclParse")
    return "\n".join(out) + "\n"
