"""E1/E7/E8 for the scripted agents: kill-chain enums, the stage-dispatch order of `get_action`, schedule guards and
comparators, defaults, and the shape of the probability vector — read from the source with `ast` (never imports primaite)."""
import ast
from typing import List, Tuple

from harness.extract.util import class_def, find_function, find_method, parse

GEN_NAME = "Agents"

SA = "game/agent/scripted_agents/"


def _enum(tree: ast.AST, name: str) -> List[Tuple[str, int]]:
    cls = class_def(tree, name)
    out = []
    for st in cls.body:
        if isinstance(st, ast.Assign) and len(st.targets) == 1 and isinstance(st.targets[0], ast.Name):
            if not (isinstance(st.value, ast.Constant) and isinstance(st.value.value, int)):
                raise ValueError(f"{name}.{st.targets[0].id} is not an int literal")
            out.append((st.targets[0].id, st.value.value))
    if not out:
        raise ValueError(f"enum {name} has no members")
    return out


def _initial_stage(tree: ast.AST, name: str) -> str:
    fn = find_method(class_def(tree, name), "initial_stage")
    rets = [n for n in ast.walk(fn) if isinstance(n, ast.Return)]
    if len(rets) != 1 or not (isinstance(rets[0].value, ast.Attribute) and ast.unparse(rets[0].value.value) == "self"):
        raise ValueError(f"{name}.initial_stage is not `return self.<MEMBER>`")
    return rets[0].value.attr


def _lean_pairs(xs: List[Tuple[str, int]]) -> str:
    return "[" + ", ".join(f'("{n}", {v})' for n, v in xs) + "]"


def _lean_strs(xs: List[str]) -> str:
    return "[" + ", ".join(f'"{x}"' for x in xs) + "]"


def _dispatch(cls: ast.ClassDef) -> Tuple[List[str], str, List[str]]:
    """Top-level statements of get_action: the first guard's test, and the `self._x(…)` calls after the last `if`."""
    fn = find_method(cls, "get_action")
    body = [st for st in fn.body if not (isinstance(st, ast.Expr) and isinstance(st.value, ast.Constant))]
    pre: List[str] = []
    guard = None
    idx = 0
    for idx, st in enumerate(body):
        if isinstance(st, ast.If):
            guard = st
            break
        if isinstance(st, ast.Expr) and isinstance(st.value, ast.Call):
            pre.append(ast.unparse(st.value.func))
        else:
            raise ValueError(f"{cls.name}.get_action: unexpected statement before the schedule guard: {ast.unparse(st)}")
    if guard is None:
        raise ValueError(f"{cls.name}.get_action has no schedule guard")
    if not (len(guard.body) == 1 and isinstance(guard.body[0], ast.Return) and ast.unparse(guard.body[0].value) == "('do-nothing', {})"):
        raise ValueError(f"{cls.name}.get_action: schedule guard does not return do-nothing")
    rest = body[idx + 1:]
    if not (rest and isinstance(rest[0], ast.If) and ast.unparse(rest[0].test) == "not self._tap_return_handler(self.current_timestep)"):
        raise ValueError(f"{cls.name}.get_action: second statement is not the `_tap_return_handler` test")
    calls = []
    for st in rest[1:]:
        if isinstance(st, ast.Expr) and isinstance(st.value, ast.Call) and ast.unparse(st.value.func).startswith("self."):
            calls.append(ast.unparse(st.value.func)[5:])
        elif isinstance(st, ast.Return):
            if ast.unparse(st.value) != "self.chosen_action":
                raise ValueError(f"{cls.name}.get_action returns {ast.unparse(st.value)}")
        else:
            raise ValueError(f"{cls.name}.get_action: unexpected statement in the main path: {ast.unparse(st)}")
    return pre, ast.unparse(guard.test), calls


def _final_stage(cls: ast.ClassDef) -> str:
    fn = find_method(cls, "_progress_kill_chain")
    first = fn.body[0] if not (isinstance(fn.body[0], ast.Expr) and isinstance(fn.body[0].value, ast.Constant)) else fn.body[1]
    if not (isinstance(first, ast.If) and isinstance(first.test, ast.Compare) and isinstance(first.test.ops[0], ast.Eq)
            and ast.unparse(first.test.left) == "self.next_kill_chain_stage"):
        raise ValueError(f"{cls.name}._progress_kill_chain does not start with the final-stage test")
    return ast.unparse(first.test.comparators[0]).split(".")[-1]


def _field_default(cls: ast.ClassDef, name: str):
    for st in cls.body:
        if isinstance(st, ast.AnnAssign) and ast.unparse(st.target) == name:
            if st.value is None:
                return None
            return ast.literal_eval(st.value)
    raise ValueError(f"{cls.name}.{name} not found")


def _prob_vector_order(tree: ast.AST) -> str:
    fn = find_method(class_def(tree, "ProbabilisticAgent"), "probabilities")
    rets = [n for n in ast.walk(fn) if isinstance(n, ast.Return)]
    if len(rets) != 1:
        raise ValueError("ProbabilisticAgent.probabilities: expected one return")
    v = rets[0].value
    if not (isinstance(v, ast.Call) and ast.unparse(v.func) in ("np.asarray", "np.array") and len(v.args) == 1):
        raise ValueError(f"ProbabilisticAgent.probabilities returns {ast.unparse(v)}")
    a = v.args[0]
    d = "self.config.agent_settings.action_probabilities"
    # one local alias `x = self.config.agent_settings.action_probabilities` is resolved
    body = [st for st in fn.body if not (isinstance(st, ast.Expr) and isinstance(st.value, ast.Constant))]
    if len(body) == 2 and isinstance(body[0], ast.Assign) and ast.unparse(body[0].value) == d and isinstance(body[0].targets[0], ast.Name):
        d = body[0].targets[0].id
    elif len(body) != 1:
        raise ValueError("ProbabilisticAgent.probabilities: unexpected statements")
    if ast.unparse(a) == f"list({d}.values())":
        return "insertion"
    if isinstance(a, ast.ListComp) and len(a.generators) == 1:
        g = a.generators[0]
        var = ast.unparse(g.target)
        if (not g.ifs and ast.unparse(g.iter) == f"range(len({d}))" and ast.unparse(a.elt) == f"{d}[{var}]"):
            return "byKey"
    if ast.unparse(a) == f"[v for _, v in sorted({d}.items())]" or ast.unparse(a) == f"[{d}[k] for k in sorted({d})]":
        return "byKey"
    raise ValueError(f"ProbabilisticAgent.probabilities: unrecognised vector expression {ast.unparse(a)}")


def _prob_vector_order_or_translation(tree: ast.AST) -> str:
    """The text pin when the shape is one of the known ones; otherwise, when the statement-by-statement translator
    (agents_ctl.TrVec) can translate the method, "seeTranslation": the order is then decided by theorem
    `C19_gen_prob_vector` about the translated function (Props/C19Get.lean), not by this pin."""
    try:
        return _prob_vector_order(tree)
    except ValueError:
        from harness.extract import agents_ctl
        try:
            agents_ctl.TrVec().body(find_method(class_def(tree, "ProbabilisticAgent"), "probabilities").body, 1)
        except agents_ctl.Unsupported:
            raise
        return "seeTranslation"


def _cmp_op(test: ast.AST) -> str:
    if isinstance(test, ast.Compare) and len(test.ops) == 1:
        return type(test.ops[0]).__name__
    raise ValueError(f"not a single comparison: {ast.unparse(test)}")


def _get_action_signatures() -> List[Tuple[str, List[str]]]:
    """Every class under game/agent (interface.py and scripted_agents/*.py) that defines `get_action`: its parameter names."""
    from harness.lib.core import SRC
    out = []
    files = ["game/agent/interface.py"] + sorted(SA + f.name for f in (SRC / SA).glob("*.py") if f.name != "__init__.py")
    for rel in files:
        for n in ast.walk(parse(rel)):
            if isinstance(n, ast.ClassDef):
                for m in n.body:
                    if isinstance(m, ast.FunctionDef) and m.name == "get_action":
                        a = m.args
                        if a.vararg or a.kwarg or a.kwonlyargs or a.posonlyargs:
                            raise ValueError(f"{n.name}.get_action: unexpected parameter kinds")
                        out.append((n.name, [x.arg for x in a.args]))
    if not out:
        raise ValueError("no get_action found")
    return out


def _game_call() -> str:
    """How `PrimaiteGame.apply_agent_actions` calls the agents."""
    t = parse("game/game.py")
    calls = [n for n in ast.walk(t) if isinstance(n, ast.Call) and isinstance(n.func, ast.Attribute) and n.func.attr == "get_action"
             and ast.unparse(n.func.value) == "agent"]
    if len(calls) != 1:
        raise ValueError(f"game.py: expected one agent.get_action call, found {len(calls)}")
    c = calls[0]
    return ", ".join([ast.unparse(a) for a in c.args] + [f"{k.arg}={ast.unparse(k.value)}" for k in c.keywords])


def _return_handler(t_abs: ast.AST) -> Tuple[str, str]:
    """`_tap_return_handler`: the test that answers True without reading the history, and the look-up that follows."""
    fn = find_method(class_def(t_abs, "AbstractTAP"), "_tap_return_handler")
    body = [st for st in fn.body if not (isinstance(st, ast.Expr) and isinstance(st.value, ast.Constant))]
    if not (len(body) == 3 and isinstance(body[0], ast.If) and isinstance(body[1], ast.If) and isinstance(body[2], ast.Return)):
        raise ValueError("_tap_return_handler: expected `if …: return True`, `if <lookup>: …; return False`, `return True`")
    g = body[0]
    if not (len(g.body) == 1 and isinstance(g.body[0], ast.Return) and ast.unparse(g.body[0].value) == "True" and not g.orelse):
        raise ValueError("_tap_return_handler: first test does not `return True`")
    if ast.unparse(body[2].value) != "True" or not isinstance(body[1].body[-1], ast.Return) or ast.unparse(body[1].body[-1].value) != "False":
        raise ValueError("_tap_return_handler: return values not recognised")
    return ast.unparse(g.test), ast.unparse(body[1].test)


def _exploit_trial(t3: ast.AST) -> Tuple[str, str, str]:
    """`TAP003._exploit`: guard of the entry trial, the probability it passes to the trial, what it sets on success."""
    fn = find_method(class_def(t3, "TAP003"), "_exploit")
    outer = next(st for st in fn.body if isinstance(st, ast.If))
    inner = outer.body[0]
    if not isinstance(inner, ast.If):
        raise ValueError("TAP003._exploit: first statement of the stage body is not the trial guard")
    t = inner.body[0]
    if not (isinstance(t, ast.If) and isinstance(t.test, ast.UnaryOp) and isinstance(t.test.op, ast.Not)
            and isinstance(t.test.operand, ast.Call) and ast.unparse(t.test.operand.func) == "self._agent_trial_handler"):
        raise ValueError("TAP003._exploit: trial not recognised")
    if not isinstance(t.body[-1], ast.Return):
        raise ValueError("TAP003._exploit: failed trial does not return")
    last = inner.body[-1]
    if not isinstance(last, ast.Assign):
        raise ValueError("TAP003._exploit: no progress assignment after the trial")
    return ast.unparse(inner.test), ast.unparse(t.test.operand.args[0]), ast.unparse(last)


def _dict_items(d: ast.Dict, where: str) -> List[Tuple[str, str]]:
    if any(k is None for k in d.keys):
        raise ValueError(f"{where}: nested ** in a dict literal")
    return [(ast.literal_eval(k), ast.unparse(x).replace('"', "'")) for k, x in zip(d.keys, d.values)]


def _action_params(tree: ast.AST, cls_name: str) -> List[Tuple[str, List[Tuple[str, str]]]]:
    """Every `self.chosen_action = "<name>", {…}` of the class, in source order: the action name and, per key, the
    source expression of its value.  `**x` is expanded when `x` is a local assigned exactly once, from a dict literal, in the
    same method (`config = {…}` in `_c2c`); any other `**` is an extractor failure."""
    out = []
    cls = class_def(tree, cls_name)
    for fn in (m for m in cls.body if isinstance(m, ast.FunctionDef)):
        local_dicts = {}
        for n in ast.walk(fn):
            if isinstance(n, ast.Assign) and len(n.targets) == 1 and isinstance(n.targets[0], ast.Name):
                local_dicts.setdefault(n.targets[0].id, []).append(n.value)
        for n in sorted((n for n in ast.walk(fn) if isinstance(n, ast.Assign)), key=lambda n: n.lineno):
            if len(n.targets) == 1 and ast.unparse(n.targets[0]) == "self.chosen_action":
                v = n.value
                if not (isinstance(v, ast.Tuple) and len(v.elts) == 2 and isinstance(v.elts[0], ast.Constant) and isinstance(v.elts[1], ast.Dict)):
                    raise ValueError(f"{cls_name}: chosen_action assigned from {ast.unparse(v)}")
                if v.elts[0].value == "do-nothing":
                    if v.elts[1].keys:
                        raise ValueError(f"{cls_name}: do-nothing with parameters")
                    continue
                kv = []
                for k, x in zip(v.elts[1].keys, v.elts[1].values):
                    if k is not None:
                        kv.append((ast.literal_eval(k), ast.unparse(x).replace('"', "'")))
                        continue
                    src = local_dicts.get(x.id, []) if isinstance(x, ast.Name) else []
                    if not (len(src) == 1 and isinstance(src[0], ast.Dict)):
                        raise ValueError(f"{cls_name}.{fn.name}: `**{ast.unparse(x)}` is not a local dict literal assigned once")
                    kv += _dict_items(src[0], f"{cls_name}.{fn.name}")
                out.append((n.lineno, v.elts[0].value, kv))
    return [(name, kv) for _, name, kv in sorted(out)]


def _self_dict(tree: ast.AST, cls_name: str, fn_name: str, attr: str) -> List[Tuple[str, str]]:
    """`self.<attr>[: T] = {…}` inside the method: key ↦ source expression (exactly one such assignment)."""
    fn = find_method(class_def(tree, cls_name), fn_name)
    hits = []
    for n in ast.walk(fn):
        tgt = n.target if isinstance(n, ast.AnnAssign) else (n.targets[0] if isinstance(n, ast.Assign) and len(n.targets) == 1 else None)
        if tgt is not None and ast.unparse(tgt) == f"self.{attr}":
            if not isinstance(n.value, ast.Dict):
                raise ValueError(f"{cls_name}.{fn_name}: self.{attr} assigned from {ast.unparse(n.value)}")
            hits.append(n.value)
    if len(hits) != 1:
        raise ValueError(f"{cls_name}.{fn_name}: expected one `self.{attr} = {{…}}`, found {len(hits)}")
    return _dict_items(hits[0], f"{cls_name}.{fn_name}")


def _attr_assignments(tree: ast.AST, cls_names: List[str], attr: str) -> List[Tuple[str, str]]:
    """Every `self.<attr> = <expr>` in the methods of the classes, in source order: (method, expression)."""
    out = []
    for cn in cls_names:
        for fn in (m for m in class_def(tree, cn).body if isinstance(m, ast.FunctionDef)):
            for n in sorted((n for n in ast.walk(fn) if isinstance(n, ast.Assign)), key=lambda n: n.lineno):
                if len(n.targets) == 1 and ast.unparse(n.targets[0]) == f"self.{attr}":
                    out.append((n.lineno, fn.name, ast.unparse(n.value).replace('"', "'")))
    return [(f, e) for _, f, e in sorted(out)]


def _select(tree: ast.AST, cls_name: str, fn_name: str) -> List[str]:
    """`_select_start_node` / `_select_target_ip`: `if <test>: <a> else: <b>` — the three source texts."""
    fn = find_method(class_def(tree, cls_name), fn_name)
    body = [st for st in fn.body if not (isinstance(st, ast.Expr) and isinstance(st.value, ast.Constant))]
    if not (len(body) == 1 and isinstance(body[0], ast.If) and len(body[0].body) == 1 and len(body[0].orelse) == 1):
        raise ValueError(f"{cls_name}.{fn_name}: expected a single two-armed `if`")
    return [ast.unparse(body[0].test), ast.unparse(body[0].body[0]), ast.unparse(body[0].orelse[0])]


def _concluded_writers() -> List[Tuple[str, str, str]]:
    """Every assignment to an attribute `actions_concluded` under scripted_agents/ and interface.py (any object, any
    method): (file, function, value).  Class-level defaults (`actions_concluded: bool = False`) are not assignments to an
    attribute and are listed separately by the caller."""
    from harness.lib.core import SRC
    out = []
    files = ["game/agent/interface.py"] + sorted(SA + f.name for f in (SRC / SA).glob("*.py") if f.name != "__init__.py")
    for rel in files:
        t = parse(rel)
        for fn in (n for n in ast.walk(t) if isinstance(n, (ast.FunctionDef, ast.AsyncFunctionDef))):
            for n in ast.walk(fn):
                tgts = n.targets if isinstance(n, ast.Assign) else ([n.target] if isinstance(n, (ast.AnnAssign, ast.AugAssign)) else [])
                for tg in tgts:
                    for sub in ast.walk(tg):
                        if isinstance(sub, ast.Attribute) and sub.attr == "actions_concluded":
                            out.append((rel.split("/")[-1], fn.name, ast.unparse(n.value) if n.value is not None else "?"))
                if isinstance(n, ast.Call) and ast.unparse(n.func) in ("setattr", "object.__setattr__") and any(
                        isinstance(a, ast.Constant) and a.value == "actions_concluded" for a in n.args):
                    out.append((rel.split("/")[-1], fn.name, "setattr"))
    return out


def _execute_return(tree: ast.AST, cls_name: str) -> List[Tuple[str, str]]:
    """The one `return "node-application-execute", {…}` of the class's get_action: key ↦ source expression."""
    fn = find_method(class_def(tree, cls_name), "get_action")
    hits = []
    for n in ast.walk(fn):
        if isinstance(n, ast.Return) and isinstance(n.value, ast.Tuple) and len(n.value.elts) == 2 and isinstance(n.value.elts[0], ast.Constant):
            name, d = n.value.elts[0].value, n.value.elts[1]
            if name == "do-nothing":
                if not (isinstance(d, ast.Dict) and not d.keys):
                    raise ValueError(f"{cls_name}.get_action: do-nothing with parameters")
                continue
            if name != "node-application-execute" or not isinstance(d, ast.Dict):
                raise ValueError(f"{cls_name}.get_action returns {ast.unparse(n.value)}")
            hits.append(_dict_items(d, f"{cls_name}.get_action"))
        elif isinstance(n, ast.Return):
            raise ValueError(f"{cls_name}.get_action: unrecognised return {ast.unparse(n)}")
    if len(hits) != 1:
        raise ValueError(f"{cls_name}.get_action: expected one node-application-execute return, found {len(hits)}")
    return hits[0]


def _start_node_body(tree: ast.AST) -> str:
    fn = find_method(class_def(tree, "PeriodicAgent"), "start_node")
    body = [st for st in fn.body if not (isinstance(st, ast.Expr) and isinstance(st.value, ast.Constant))]
    if not (len(body) == 1 and isinstance(body[0], ast.Return)):
        raise ValueError("PeriodicAgent.start_node: expected a single return")
    if [ast.unparse(d) for d in fn.decorator_list] != ["computed_field", "cached_property"]:
        raise ValueError("PeriodicAgent.start_node: expected @computed_field @cached_property")
    return ast.unparse(body[0].value)


def _tap3_knowledge(t3: ast.AST) -> List[str]:
    """`TAP003.AgentSettingsSchema.check_network_knowledge_covers_targets` (settings validator): the possible start nodes,
    the keys demanded of an account-change host, the keys demanded of an ACL router; and the knowledge entry
    `_handle_change_password_response` writes after a LOCAL password change."""
    settings = [c for c in ast.walk(class_def(t3, "TAP003")) if isinstance(c, ast.ClassDef) and c.name == "AgentSettingsSchema"][0]
    fn = find_method(settings, "check_network_knowledge_covers_targets")
    if [ast.unparse(d) for d in fn.decorator_list] != ["model_validator(mode='after')"]:
        raise ValueError("check_network_knowledge_covers_targets is not an after-validator")
    assigns = {ast.unparse(n.targets[0]): ast.unparse(n.value).replace('"', "'") for n in ast.walk(fn)
               if isinstance(n, ast.Assign) and len(n.targets) == 1}
    if not any(isinstance(n, ast.Raise) for n in ast.walk(fn)):
        raise ValueError("check_network_knowledge_covers_targets never raises")
    out = [assigns.get("start_nodes", "?"), assigns.get("keys", "?"), assigns.get("required[acl.target_router]", "?")]
    h = find_method(class_def(t3, "TAP003"), "_handle_change_password_response")
    local = [ast.unparse(n.value).replace('"', "'") for n in ast.walk(h) if isinstance(n, ast.Assign) and len(n.targets) == 1
             and ast.unparse(n.targets[0]) == "self.network_knowledge['credentials'][hostname]"]
    if len(local) != 2:
        raise ValueError(f"_handle_change_password_response: expected two knowledge updates, found {len(local)}")
    return out + [local[1]]


def _exploit_empty_guard(t3: ast.AST) -> List[str]:
    """`TAP003._exploit`: the statement right before `malicious_acl = …malicious_acls[self._current_acl]` must be the guard for an
    empty list: its test and the statements of its body."""
    fn = find_method(class_def(t3, "TAP003"), "_exploit")
    outer = next(st for st in fn.body if isinstance(st, ast.If))
    for prev, st in zip(outer.body, outer.body[1:]):
        if isinstance(st, ast.Assign) and ast.unparse(st.targets[0]) == "malicious_acl":
            if not isinstance(prev, ast.If) or prev.orelse:
                raise ValueError("TAP003._exploit: no guard before indexing malicious_acls")
            return [ast.unparse(prev.test)] + [ast.unparse(x).replace('"', "'") for x in prev.body]
    raise ValueError("TAP003._exploit: `malicious_acl = …` not found")


def _lean_triples(xs) -> str:
    return "[" + ", ".join(f'("{a}", "{b}", "{c}")' for a, b, c in xs) + "]"


def _lean_spairs(xs) -> str:
    return "[" + ", ".join(f'("{a}", "{b}")' for a, b in xs) + "]"


def _lean_params(xs) -> str:
    return "[" + ",\n  ".join(f'("{n}", [' + ", ".join(f'("{k}", "{e}")' for k, e in kv) + "])" for n, kv in xs) + "]"


def emit() -> str:
    t_abs = parse(SA + "abstract_tap.py")
    t1 = parse(SA + "TAP001.py")
    t3 = parse(SA + "TAP003.py")
    t_rand = parse(SA + "random_agent.py")
    t_dm = parse(SA + "data_manipulation_bot.py")
    t_prob = parse(SA + "probabilistic_agent.py")
    t_sci = parse("game/science.py")

    base = _enum(t_abs, "BaseKillChain")
    prog = _enum(t_abs, "KillChainStageProgress")
    mm = _enum(t1, "MobileMalwareKillChain")
    ins = _enum(t3, "InsiderKillChain")
    pre1, guard1, calls1 = _dispatch(class_def(t1, "TAP001"))
    pre3, guard3, calls3 = _dispatch(class_def(t3, "TAP003"))

    # PeriodicAgent.get_action: `if timestep == self.next_execution_timestep and self.num_executions < max:`
    pa = find_method(class_def(t_rand, "PeriodicAgent"), "get_action")
    pif = next(st for st in pa.body if isinstance(st, ast.If))
    if not (isinstance(pif.test, ast.BoolOp) and isinstance(pif.test.op, ast.And) and len(pif.test.values) == 2):
        raise ValueError("PeriodicAgent.get_action guard is not `a and b`")
    p_time, p_count = pif.test.values
    if ast.unparse(p_time.left) != "timestep" or ast.unparse(p_time.comparators[0]) != "self.next_execution_timestep":
        raise ValueError("PeriodicAgent.get_action: time test not recognised")
    if ast.unparse(p_count.left) != "self.num_executions" or ast.unparse(p_count.comparators[0]) != "self.config.agent_settings.max_executions":
        raise ValueError("PeriodicAgent.get_action: count test not recognised")
    # DataManipulationAgent.get_action: `if timestep < self.next_execution_timestep: return do-nothing`
    da = find_method(class_def(t_dm, "DataManipulationAgent"), "get_action")
    dif = next(st for st in da.body if isinstance(st, ast.If))
    if ast.unparse(dif.test.left) != "timestep" or ast.unparse(dif.test.comparators[0]) != "self.next_execution_timestep":
        raise ValueError("DataManipulationAgent.get_action: time test not recognised")
    # validator
    settings = class_def(t_rand, "AgentSettingsSchema")
    val = find_method(settings, "check_variance_lt_frequency")
    vif = next(n for n in ast.walk(val) if isinstance(n, ast.If))
    if ast.unparse(vif.test.left) != "self.variance" or ast.unparse(vif.test.comparators[0]) != "self.frequency":
        raise ValueError("check_variance_lt_frequency: test not recognised")
    if not any(isinstance(n, ast.Raise) for n in vif.body):
        raise ValueError("check_variance_lt_frequency: the test does not raise")
    # simulate_trial
    st_fn = find_function(t_sci, "simulate_trial")
    ret = next(n for n in ast.walk(st_fn) if isinstance(n, ast.Return))
    if ast.unparse(ret.value.left) != "random()" or ast.unparse(ret.value.comparators[0]) != "p_of_success":
        raise ValueError("simulate_trial: not `random() < p_of_success`")
    # randint symmetric ranges
    def randint_args(fn: ast.FunctionDef) -> str:
        c = next(n for n in ast.walk(fn) if isinstance(n, ast.Call) and ast.unparse(n.func) == "random.randint")
        return ", ".join(ast.unparse(a) for a in c.args)
    p_rand = randint_args(find_method(class_def(t_rand, "PeriodicAgent"), "_set_next_execution_timestep"))
    t_rand_args = randint_args(find_method(class_def(t_abs, "AbstractTAP"), "_set_next_execution_timestep"))
    tap_settings = [c for c in ast.walk(class_def(t_abs, "AbstractTAP")) if isinstance(c, ast.ClassDef) and c.name == "AgentSettingsSchema"][0]

    sigs = _get_action_signatures()
    empty_guard, lookup = _return_handler(t_abs)
    ex_guard, ex_prob, ex_set = _exploit_trial(t3)
    return f"""namespace Primaite.Gen.Agents
/-- `BaseKillChain`, `KillChainStageProgress` (abstract_tap.py) -/
def baseKillChain : List (String × Int) := {_lean_pairs(base)}
def stageProgress : List (String × Int) := {_lean_pairs(prog)}
/-- `MobileMalwareKillChain` (TAP001.py), `InsiderKillChain` (TAP003.py), in declaration order -/
def mobileMalwareKillChain : List (String × Int) := {_lean_pairs(mm)}
def insiderKillChain : List (String × Int) := {_lean_pairs(ins)}
def tap1Initial : String := "{_initial_stage(t1, "MobileMalwareKillChain")}"
def tap3Initial : String := "{_initial_stage(t3, "InsiderKillChain")}"
/-- the stage that `_progress_kill_chain` treats as the last one -/
def tap1Final : String := "{_final_stage(class_def(t1, "TAP001"))}"
def tap3Final : String := "{_final_stage(class_def(t3, "TAP003"))}"
/-- `get_action`: calls before the schedule guard, the guard, and the calls of the main path in order -/
def tap1PreGuard : List String := {_lean_strs(pre1)}
def tap1Guard : String := "{guard1}"
def tap1Dispatch : List String := {_lean_strs(calls1)}
def tap3PreGuard : List String := {_lean_strs(pre3)}
def tap3Guard : String := "{guard3}"
def tap3Dispatch : List String := {_lean_strs(calls3)}
/-- schedule tests: `timestep <op> self.next_execution_timestep` -/
def periodicTimeOp : String := "{_cmp_op(p_time)}"
def periodicCountOp : String := "{_cmp_op(p_count)}"
def dmIdleOp : String := "{_cmp_op(dif.test)}"
/-- `check_variance_lt_frequency` raises when `variance <op> frequency` -/
def varianceRejectOp : String := "{_cmp_op(vif.test)}"
/-- `simulate_trial`: `random() <op> p` -/
def trialOp : String := "{_cmp_op(ret.value)}"
def periodicRandintArgs : String := "{p_rand}"
def tapRandintArgs : String := "{t_rand_args}"
/-- defaults of PeriodicAgent.AgentSettingsSchema / AbstractTAP.AgentSettingsSchema -/
def periodicDefaults : List (String × Int) := {_lean_pairs([(k, _field_default(settings, k)) for k in ("start_step", "start_variance", "frequency", "variance", "max_executions")])}
def tapDefaults : List (String × Int) := {_lean_pairs([(k, int(_field_default(tap_settings, k))) for k in ("start_step", "frequency", "variance", "repeat_kill_chain", "repeat_kill_chain_stages")])}
/-- how `ProbabilisticAgent.probabilities` orders the vector handed to numpy: "insertion" = `list(d.values())`, "byKey" = indexed by action number -/
def probVectorOrder : String := "{_prob_vector_order_or_translation(t_prob)}"
/-- parameter names of every `get_action` under game/agent, and how `PrimaiteGame.apply_agent_actions` calls it -/
def getActionParams : List (String × List String) := [{", ".join(f'("{n}", {_lean_strs(a)})' for n, a in sigs)}]
def gameGetActionCall : String := "{_game_call()}"
/-- `_tap_return_handler`: answers True without reading the history when this holds; otherwise the look-up -/
def tapReturnEmptyGuard : String := "{empty_guard}"
def tapReturnLookup : String := "{lookup.replace('"', "'")}"
/-- `TAP003._exploit`: guard of the entry trial, probability handed to the trial, assignment after a passed trial -/
def tap3ExploitTrialGuard : String := "{ex_guard}"
def tap3ExploitTrialProb : String := "{ex_prob}"
def tap3ExploitTrialSet : String := "{ex_set}"
/-- every non-idle `self.chosen_action = name, {{…}}` in source order, with the source expression of each parameter -/
def tap1ActionParams : List (String × List (String × String)) := {_lean_params(_action_params(t1, "TAP001"))}
def tap3ActionParams : List (String × List (String × String)) := {_lean_params(_action_params(t3, "TAP003"))}
/-- the dict literals of `TAP001.setup_agent` / `_network_knowledge_reset` the parameter expressions read from -/
def tap1C2Settings : List (String × String) := {_lean_spairs(_self_dict(t1, "TAP001", "setup_agent", "c2_settings"))}
def tap1PayloadSettings : List (String × String) := {_lean_spairs(_self_dict(t1, "TAP001", "setup_agent", "payload_settings"))}
def tap1NetworkKnowledge : List (String × String) := {_lean_spairs(_self_dict(t1, "TAP001", "setup_agent", "network_knowledge"))}
def tap1NetworkKnowledgeReset : List (String × String) := {_lean_spairs(_self_dict(t1, "TAP001", "_network_knowledge_reset", "network_knowledge"))}
/-- every `self.chosen_application = …` / `self.current_host = …` (method, expression), in source order -/
def tap1ChosenApplication : List (String × String) := {_lean_spairs(_attr_assignments(t1, ["TAP001"], "chosen_application"))}
def tap1CurrentHost : List (String × String) := {_lean_spairs(_attr_assignments(t1, ["TAP001"], "current_host"))}
def tap3CurrentHost : List (String × String) := {_lean_spairs(_attr_assignments(t3, ["TAP003"], "current_host"))}
/-- `_select_start_node` (abstract_tap.py) / `_select_target_ip` (TAP001.py): test, then-branch, else-branch -/
def selectStartNode : List String := {_lean_strs([x.replace('"', "'") for x in _select(t_abs, "AbstractTAP", "_select_start_node")])}
def selectTargetIp : List String := {_lean_strs([x.replace('"', "'") for x in _select(t1, "TAP001", "_select_target_ip")])}
/-- PeriodicAgent / DataManipulationAgent: the dictionary of the returned node-application-execute, the cached `start_node`, the default application -/
def periodicActionParams : List (String × String) := {_lean_spairs(_execute_return(t_rand, "PeriodicAgent"))}
def dmActionParams : List (String × String) := {_lean_spairs(_execute_return(t_dm, "DataManipulationAgent"))}
def periodicStartNode : String := "{_start_node_body(t_rand)}"
def dmDefaultApplication : String := "{_field_default([c for c in ast.walk(class_def(t_dm, "DataManipulationAgent")) if isinstance(c, ast.ClassDef) and c.name == "AgentSettingsSchema"][0], "target_application")}"
/-- TAP003: settings validator (possible start nodes, keys of an account-change host, keys of an ACL router) and the entry written after a local password change -/
def tap3Knowledge : List String := {_lean_strs(_tap3_knowledge(t3))}
/-- TAP003._exploit: the guard for an empty `malicious_acls` (test, body) right before the list is indexed -/
def tap3ExploitEmptyGuard : List String := {_lean_strs(_exploit_empty_guard(t3))}
/-- every assignment to an attribute `actions_concluded` in a method under game/agent: (file, function, value) -/
def concludedWriters : List (String × String × String) := {_lean_triples(_concluded_writers())}
end Primaite.Gen.Agents
"""
