"""C11: shape of the action-mask pipeline. Pure ast; strict (an unrecognised shape raises).

    PrimaiteGame.action_mask            -> maskSteps: the statements of the body (docstring and `agent = …` dropped), flattened
    PrimaiteGymEnv.action_masks         -> envMaskReturnsGameMask: masking off => all-True of len(action_map); else game.action_mask(name)
    ActionManager.get_action            -> getActionByKey: `self.action_map[action]`
    ActionManager.ConfigSchema validator-> schemaDemandsEveryNumber: `all([i in v.keys() for i in range(len(v))])`
    ActionManager.__init__              -> actionMapBuiltByKey: `{n: (v.action, v.options) for n, v in self.config.action_map.items()}`
    ProxyAgent.get_action / env.step    -> stepLooksUpByNumber: store_action(action) then action_manager.get_action(self.most_recent_action)
"""
import ast

from harness.extract.util import class_def, find_method, parse

GEN_NAME = "ActionMask"


def _lean_str(s: str) -> str:
    return '"' + s.replace("\\", "\\\\").replace('"', '\\"') + '"'


def _flat(body):
    """Statements in order; a `for` contributes its header and then its body."""
    out = []
    for st in body:
        if isinstance(st, ast.Expr) and isinstance(st.value, ast.Constant) and isinstance(st.value.value, str):
            continue
        if isinstance(st, ast.For):
            if st.orelse:
                raise ValueError("for/else in action_mask")
            out.append(f"for {ast.unparse(st.target)} in {ast.unparse(st.iter)}")
            out += _flat(st.body)
        elif isinstance(st, (ast.Assign, ast.Return, ast.AugAssign, ast.Expr)):
            out.append(ast.unparse(st))
        else:
            raise ValueError(f"unrecognised statement in action_mask: {ast.unparse(st)[:80]}")
    return out


def _pure_chain(e: ast.expr) -> bool:
    """`self.a.b.c` / `name.a.b`: attribute reads only (no call, no subscript) — re-reading it later gives the same object as long as
    nothing in between assigns one of those attributes (checked by the caller: the method body contains no attribute store)"""
    while isinstance(e, ast.Attribute):
        e = e.value
    return isinstance(e, ast.Name)


class _Subst(ast.NodeTransformer):
    def __init__(self, name, value):
        self.name, self.value = name, value

    def visit_Name(self, node):
        return self.value if node.id == self.name and isinstance(node.ctx, ast.Load) else node


def _inline_aliases(body: list) -> list:
    """A local name bound ONCE, at the top level of the body, to a pure attribute chain (`rm = self.simulation._request_manager`,
    `amap = agent.action_manager.action_map`) is a mere alias: every later read is replaced by the chain and the binding dropped, so
    that the statements are compared in their alias-free form.  Sound because the body stores to no attribute (refused otherwise)."""
    if any(isinstance(x, ast.Attribute) and not isinstance(x.ctx, ast.Load) for st in body for x in ast.walk(st)):
        return body
    out = list(body)
    changed = True
    while changed:
        changed = False
        for k, st in enumerate(out):
            if (isinstance(st, ast.Assign) and len(st.targets) == 1 and isinstance(st.targets[0], ast.Name) and _pure_chain(st.value)
                    and isinstance(st.value, ast.Attribute)):
                t = st.targets[0].id
                stores = sum(1 for s2 in out for x in ast.walk(s2) if isinstance(x, ast.Name) and x.id == t and not isinstance(x.ctx, ast.Load))
                early = any(isinstance(x, ast.Name) and x.id == t for s2 in out[:k] for x in ast.walk(s2))
                if stores == 1 and not early:
                    out = out[:k] + [ast.fix_missing_locations(_Subst(t, st.value).visit(s2)) for s2 in out[k + 1:]]
                    changed = True
                    break
    return out


def emit() -> str:
    game = class_def(parse("game/game.py"), "PrimaiteGame")
    steps = _flat(_inline_aliases(find_method(game, "action_mask").body))
    if steps and steps[0] == "agent = self.agents[agent_name]":
        steps = steps[1:]
    env = class_def(parse("session/environment.py"), "PrimaiteGymEnv")
    am = find_method(env, "action_masks")
    body = [st for st in am.body if not (isinstance(st, ast.Expr) and isinstance(st.value, ast.Constant))]
    env_ok = (len(body) == 1 and isinstance(body[0], ast.If)
              and ast.unparse(body[0].test) == "not self.agent.config.agent_settings.action_masking"
              and [ast.unparse(s) for s in body[0].body] == ["return np.asarray([True] * len(self.agent.action_manager.action_map))"]
              and [ast.unparse(s) for s in body[0].orelse] == ["return self.game.action_mask(self._agent_name)"])
    mgr = class_def(parse("game/agent/actions/manager.py"), "ActionManager")
    ga = [ast.unparse(s) for s in find_method(mgr, "get_action").body if not (isinstance(s, ast.Expr) and isinstance(s.value, ast.Constant))]
    by_key = ga == ["act_identifier, act_options = self.action_map[action]", "return (act_identifier, act_options)"]
    schema = class_def(mgr, "ConfigSchema")
    val = find_method(schema, "consecutive_action_nums")
    vb = [ast.unparse(s) for s in val.body if not (isinstance(s, ast.Expr) and isinstance(s.value, ast.Constant))]
    decos = [ast.unparse(d) for d in val.decorator_list]
    every = vb == ["assert all([i in v.keys() for i in range(len(v))])", "return v"] and any("field_validator('action_map'" in d for d in decos)
    init = [ast.unparse(s) for s in find_method(mgr, "__init__").body]
    built = "self.action_map = {n: (v.action, v.options) for n, v in self.config.action_map.items()}" in init
    proxy = class_def(parse("game/agent/interface.py"), "ProxyAgent")
    pga = [ast.unparse(s) for s in find_method(proxy, "get_action").body if not (isinstance(s, ast.Expr) and isinstance(s.value, ast.Constant))]
    store = [ast.unparse(s) for s in find_method(proxy, "store_action").body if not (isinstance(s, ast.Expr) and isinstance(s.value, ast.Constant))]
    step_src = ast.unparse(find_method(env, "step"))
    by_number = (pga == ["return self.action_manager.get_action(self.most_recent_action)"] and store == ["self.most_recent_action = action"]
                 and "self.agent.store_action(action)" in step_src)
    b = lambda x: "true" if x else "false"  # noqa: E731
    return "\n".join([
        "namespace Primaite.Gen.ActionMask",
        "/-- statements of `PrimaiteGame.action_mask` in order (loop header, then loop body) -/",
        "def maskSteps : List String := [" + ", ".join(_lean_str(s) for s in steps) + "]",
        f"def envMaskReturnsGameMask : Bool := {b(env_ok)}",
        f"def getActionByKey : Bool := {b(by_key)}",
        f"def schemaDemandsEveryNumber : Bool := {b(every)}",
        f"def actionMapBuiltByKey : Bool := {b(built)}",
        f"def stepLooksUpByNumber : Bool := {b(by_number)}",
        "end Primaite.Gen.ActionMask", ""])
