"""E5 — action templates: every `form_request` under game/agent/actions/*.py as a list of templates (pure `ast`).

For every REGISTERED action class (one that passes `discriminator=` in its class header) the `form_request` it inherits
is resolved along the class hierarchy, and each `return` becomes one template: a list of elements

    lit s                      a string literal (also `config.verb` when `verb` is a ClassVar / a field with a literal default)
    slot field kind type       `config.<field>` where the field NAME denotes a component (node / router / firewall / service /
                               application / nic / folder / file); `type` = declared Python type (str | int), `str` if the
                               element is wrapped in `str()`
    choice field               `config.<field>` naming one of the literal keys of a static level (firewall port, direction)
    opt descr                  anything that is payload: other config fields, dict literals of config fields

plus the guards of the do-nothing fall-backs (`if config.a is None or ...: return ["do-nothing"]`).
Strict: any statement or element shape that is not recognised raises `ValueError`.
"""
from __future__ import annotations

import ast
from typing import Dict, List, Optional, Tuple

from harness.lib.core import SRC

GEN_NAME = "ActionTemplates"

# which config field names denote which kind of component (everything else is payload)
FIELD_KIND = {
    "node_name": "node", "source_node": "node", "target_nodename": "node",
    "target_router": "router", "target_firewall_nodename": "firewall",
    "service_name": "service", "application_name": "application",
    "nic_num": "nic", "port_num": "nic", "folder_name": "folder", "file_name": "file",
}
FIELD_CHOICE = {"firewall_port_name", "firewall_port_direction"}


class ACls:
    def __init__(self, node: ast.ClassDef, rel: str):
        self.node, self.rel, self.name = node, rel, node.name
        self.bases = [ast.unparse(b) for b in node.bases]
        self.discriminator = None
        for kw in node.keywords:
            if kw.arg == "discriminator":
                if not (isinstance(kw.value, ast.Constant) and isinstance(kw.value.value, str)):
                    raise ValueError(f"{self.name}: discriminator is not a string literal")
                self.discriminator = kw.value.value

    def method(self, name):
        for n in self.node.body:
            if isinstance(n, ast.FunctionDef) and n.name == name:
                return n
        return None

    def schema(self) -> Optional[ast.ClassDef]:
        for n in self.node.body:
            if isinstance(n, ast.ClassDef) and n.name == "ConfigSchema":
                return n
        return None


def load() -> Dict[str, ACls]:
    out = {}
    for f in sorted((SRC / "game" / "agent" / "actions").glob("*.py")):
        tree = ast.parse(f.read_text())
        for n in tree.body:
            if isinstance(n, ast.ClassDef):
                if n.name in out:
                    raise ValueError(f"two action classes named {n.name}")
                out[n.name] = ACls(n, f.name)
    return out


def lin(classes: Dict[str, ACls], name: str) -> List[str]:
    """linearisation; the action classes use single inheritance among themselves (checked)"""
    res = [name]
    cur = name
    while True:
        ps = [b for b in classes[cur].bases if b in classes]
        if len(ps) > 1:
            raise ValueError(f"{cur}: multiple inheritance among action classes is not handled")
        if not ps:
            return res
        cur = ps[0]
        res.append(cur)


def schema_fields(classes: Dict[str, ACls], name: str) -> Dict[str, dict]:
    """Fields of the ConfigSchema that `cls.ConfigSchema` denotes for class `name`: nearest nested ConfigSchema along the
    class hierarchy, then ITS bases (`X.ConfigSchema`) recursively. Returns field -> {type, classvar, default}."""
    owner = next((k for k in lin(classes, name) if classes[k].schema() is not None), None)
    if owner is None:
        raise ValueError(f"{name}: no ConfigSchema")
    chain = []

    def collect(cname: str):
        sc = classes[cname].schema()
        if sc is None:
            raise ValueError(f"{cname}: referenced ConfigSchema missing")
        chain.append(sc)
        for b in sc.bases:
            s = ast.unparse(b)
            if s in ("ABC", "BaseModel"):
                continue
            if s.endswith(".ConfigSchema") and s[: -len(".ConfigSchema")] in classes:
                collect(s[: -len(".ConfigSchema")])
            else:
                raise ValueError(f"{cname}.ConfigSchema: unrecognised base {s}")
    collect(owner)
    fields: Dict[str, dict] = {}
    for sc in reversed(chain):   # base first, overridden by the more derived schema
        for st in sc.body:
            if isinstance(st, ast.Expr) and isinstance(st.value, ast.Constant):
                continue
            if isinstance(st, ast.AnnAssign) and isinstance(st.target, ast.Name):
                ann = ast.unparse(st.annotation)
                d = {"type": ann, "classvar": ann.startswith("ClassVar["), "default": None, "has_default": st.value is not None}
                if st.value is not None and isinstance(st.value, ast.Constant):
                    d["default"] = st.value.value
                fields[st.target.id] = d
            elif isinstance(st, ast.Assign) and ast.unparse(st.targets[0]) == "model_config":
                continue
            else:
                raise ValueError(f"{sc.name} of {name}: unrecognised ConfigSchema statement {ast.unparse(st)[:100]}")
    return fields


def _cfg_field(e: ast.expr) -> Optional[str]:
    if isinstance(e, ast.Attribute) and isinstance(e.value, ast.Name) and e.value.id == "config":
        return e.attr
    return None


def _dict_fields(e: ast.expr, env: Dict[str, list]) -> Optional[list]:
    """a dict literal / dict(...) call whose values are config fields, or a name bound to one"""
    if isinstance(e, ast.Name) and e.id in env:
        return env[e.id]
    if isinstance(e, ast.Dict):
        out = []
        for k, v in zip(e.keys, e.values):
            f = _cfg_field(v)
            if not (isinstance(k, ast.Constant) and isinstance(k.value, str)) or f is None:
                raise ValueError("dict element is not 'key': config.<field>: " + ast.unparse(e)[:120])
            out.append((k.value, f))
        return out
    if isinstance(e, ast.Call) and isinstance(e.func, ast.Name) and e.func.id == "dict" and not e.args:
        out = []
        for kw in e.keywords:
            f = _cfg_field(kw.value)
            if kw.arg is None or f is None:
                raise ValueError("dict(...) argument is not key=config.<field>: " + ast.unparse(e)[:120])
            out.append((kw.arg, f))
        return out
    return None


def ktype(ann: str) -> str:
    return {"str": "str", "int": "int"}.get(ann, "other")


def element(e: ast.expr, fields: Dict[str, dict], env: Dict[str, list], where: str) -> tuple:
    if isinstance(e, ast.Constant) and isinstance(e.value, str):
        return ("lit", e.value)
    wrapped = False
    inner = e
    if isinstance(e, ast.Call) and isinstance(e.func, ast.Name) and e.func.id == "str" and len(e.args) == 1 and not e.keywords:
        wrapped, inner = True, e.args[0]
    f = _cfg_field(inner)
    if f is not None:
        if f not in fields:
            raise ValueError(f"{where}: config.{f} is not a field of the ConfigSchema")
        fd = fields[f]
        if f == "verb":
            if not isinstance(fd["default"], str):
                raise ValueError(f"{where}: config.verb has no literal value in this class")
            return ("lit", fd["default"], "classvar" if fd["classvar"] else "default")
        ty = "str" if wrapped else ktype(fd["type"])
        if f in FIELD_KIND:
            return ("slot", f, FIELD_KIND[f], ty, fd["type"], wrapped)
        if f in FIELD_CHOICE:
            return ("choice", f, ty, fd["type"], wrapped)
        return ("opt", ("str(" if wrapped else "") + f + (")" if wrapped else "") + ": " + fd["type"])
    d = _dict_fields(e, env)
    if d is not None:
        for _, fld in d:
            if fld not in fields:
                raise ValueError(f"{where}: config.{fld} is not a field of the ConfigSchema")
        return ("opt", "{" + ", ".join(k for k, _ in d) + "}")
    raise ValueError(f"{where}: unrecognised request element {ast.unparse(e)[:120]}")


def guard_fields(test: ast.expr, where: str) -> List[str]:
    parts = test.values if isinstance(test, ast.BoolOp) and isinstance(test.op, ast.Or) else [test]
    out = []
    for p in parts:
        if isinstance(p, ast.Compare) and len(p.ops) == 1 and isinstance(p.ops[0], ast.Is) and _cfg_field(p.left) is not None \
                and isinstance(p.comparators[0], ast.Constant) and p.comparators[0].value is None:
            out.append(_cfg_field(p.left))
        else:
            raise ValueError(f"{where}: unrecognised do-nothing guard {ast.unparse(test)[:120]}")
    return out


def templates_of(classes: Dict[str, ACls], name: str) -> List[dict]:
    c = classes[name]
    owner = next((k for k in lin(classes, name) if classes[k].method("form_request") is not None), None)
    if owner is None:
        raise ValueError(f"{name}: no form_request")
    fn = classes[owner].method("form_request")
    where = f"{name}.form_request (defined in {owner})"
    argnames = [a.arg for a in fn.args.args]
    if "config" not in argnames:
        raise ValueError(f"{where}: no `config` parameter")
    fields = schema_fields(classes, name)
    env: Dict[str, list] = {}
    out = []
    guards: List[List[str]] = []
    for st in fn.body:
        if isinstance(st, ast.Expr) and isinstance(st.value, ast.Constant):
            continue
        if isinstance(st, ast.Pass):
            raise ValueError(f"{where}: registered action inherits an abstract form_request")
        if isinstance(st, ast.If) and not st.orelse and len(st.body) == 1 and isinstance(st.body[0], ast.Return):
            g = guard_fields(st.test, where)
            r = st.body[0].value
            if not (isinstance(r, ast.List) and len(r.elts) == 1 and isinstance(r.elts[0], ast.Constant) and r.elts[0].value == "do-nothing"):
                raise ValueError(f"{where}: guarded return is not ['do-nothing']")
            guards.append(g)
            out.append({"action": c.discriminator, "cls": name, "fallback": True, "guard": g, "segs": [("lit", "do-nothing")]})
            continue
        if isinstance(st, ast.Assign) and len(st.targets) == 1 and isinstance(st.targets[0], ast.Name):
            v = st.value
            d = _dict_fields(v, env)
            if d is not None:
                env[st.targets[0].id] = d
                continue
            # data = {k: v for k, v in data.items() if v is not None}: same keys, None-valued ones dropped
            if isinstance(v, ast.DictComp) and ast.unparse(v) == f"{{k: v for k, v in {st.targets[0].id}.items() if v is not None}}" \
                    and st.targets[0].id in env:
                continue
            raise ValueError(f"{where}: unrecognised assignment {ast.unparse(st)[:120]}")
        if isinstance(st, ast.Return):
            if not isinstance(st.value, ast.List):
                raise ValueError(f"{where}: return value is not a list literal")
            segs = [element(e, fields, env, where) for e in st.value.elts]
            out.append({"action": c.discriminator, "cls": name, "fallback": False, "guard": [x for g in guards for x in g], "segs": segs})
            continue
        raise ValueError(f"{where}: unrecognised statement {ast.unparse(st)[:120]}")
    if not any(not t["fallback"] for t in out):
        raise ValueError(f"{where}: no unconditional return")
    return out


def build() -> List[dict]:
    classes = load()
    out = []
    seen = set()
    for name, c in classes.items():
        if c.discriminator is None:
            continue
        if c.discriminator in seen:
            raise ValueError(f"discriminator {c.discriminator} used twice")
        seen.add(c.discriminator)
        out += templates_of(classes, name)
    return out


def lstr(s: str) -> str:
    return '"' + s.replace("\\", "\\\\").replace('"', '\\"') + '"'


def lseg(s: tuple) -> str:
    if s[0] == "lit":
        return f".lit {lstr(s[1])}"
    if s[0] == "slot":
        return f".slot {lstr(s[1])} .{s[2]} .{s[3]}"
    if s[0] == "choice":
        return f".choice {lstr(s[1])} .{s[2]}"
    return f".opt {lstr(s[1])}"


def emit() -> str:
    ts = build()
    L = ["import PrimaiteModel.Model.Schema", "namespace Primaite.Gen.ActionTemplates", "open Primaite.Schema", ""]
    L.append("/-- one entry per `return` of every registered action's `form_request` -/")
    L.append("def templates : List Template := [")
    rows = []
    for t in ts:
        rows.append("  { action := " + lstr(t["action"]) + ", fallback := " + ("true" if t["fallback"] else "false") +
                    ", guard := [" + ", ".join(lstr(g) for g in t["guard"]) + "],\n    segs := [" + ", ".join(lseg(s) for s in t["segs"]) + "] }")
    L.append(",\n".join(rows) + "]")
    L.append("")
    L.append("/-- literals that come from a `verb` FIELD with a default (overridable by the action's options), as opposed to a ClassVar -/")
    L.append("def defaultedVerbs : List (String × String) := [")
    dv = sorted({(t["action"], s[1]) for t in ts for s in t["segs"] if s[0] == "lit" and len(s) > 2 and s[2] == "default"})
    L.append(",\n".join(f"  ({lstr(a)}, {lstr(v)})" for a, v in dv) + "]")
    L.append("")
    L.append("/-- the registered action identifiers -/")
    L.append("def actions : List String := [" + ", ".join(lstr(a) for a in sorted({t["action"] for t in ts})) + "]")
    L.append("")
    L.append("end Primaite.Gen.ActionTemplates")
    return "\n".join(L) + "\n"


if __name__ == "__main__":
    print(emit())
