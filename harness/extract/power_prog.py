"""Translator for the bodies of the node power methods (C12), read with `ast` (never imports primaite).

Emits Gen/PowerProg.lean: `Node.power_on`, `Node.power_off`, `Node.reset`, the part of `Node.apply_timestep` outside the
software block, `Node._start_up_actions`, `Node._shut_down_actions`, each TRANSLATED statement by statement into a term of
the statement language of Model/PowerProg.lean (`PStmt`).  Props/C12Prog.lean proves for every node that running the
translated body is the model's function, so the tie is by meaning: a rewrite that keeps the meaning still checks.

Also translated (round 7c): the interfaces' own `enable()` / `disable()` (WiredNetworkInterface, IPWiredNetworkInterface,
WirelessNetworkInterface, IPWirelessNetworkInterface) into `IStmt`, WITH local variables and `super()`.

Node methods may use local variables that hold a truth value (see `_seq`).
Strict: anything outside the fragment (in a node method an unknown call, an unknown attribute, a loop with more than
one statement, an argument to a power call) raises Unsupported, which breaks the tie visibly.
"""
import ast
from typing import List

from harness.extract.util import class_def, find_method, parse

GEN_NAME = "PowerProg"
BASE = "simulator/network/hardware/base.py"


class Unsupported(Exception):
    pass


INTS = {"self.config.start_up_duration": "upDur", "self.config.shut_down_duration": "downDur",
        "self.config.start_up_countdown": "upCd", "self.config.shut_down_countdown": "downCd"}
SETTERS = {"upDur": "setUpDur", "downDur": "setDownDur", "upCd": "setUpCd", "downCd": "setDownCd"}
MEMBERS = {"ON": "on", "OFF": "off", "BOOTING": "booting", "SHUTTING_DOWN": "shuttingDown"}
CMPS = {ast.LtE: "le", ast.Lt: "lt", ast.GtE: "ge", ast.Gt: "gt", ast.Eq: "eq", ast.NotEq: "ne"}
CALLS = {"self.power_on": "powerOn", "self.power_off": "powerOff"}
ACTIONS = {"self._start_up_actions": "startUpActions", "self._shut_down_actions": "shutDownActions"}
SVC_VERBS = ("stop", "start", "pause", "resume", "restart", "disable", "enable")
APP_VERBS = ("run", "close", "install")
STATE = "self.operating_state"
# classes whose methods may be called unbound on an element of a collection: `Application.run(self.applications[a])`.
# Not the interfaces: their enable() differs by class (the IP classes answer differently and say hello), so an unbound
# `WiredNetworkInterface.enable(i)` is NOT `i.enable()` for the model and stays outside the fragment.
UNBOUND_CLASSES = {"Application": "applications", "Service": "services"}
RESETTING = "self.config.is_resetting"


def _u(e: ast.AST) -> str:
    return ast.unparse(e)


def _is_noise(st: ast.stmt) -> bool:
    """logging, docstrings, `pass`"""
    if isinstance(st, ast.Pass):
        return True
    if isinstance(st, ast.Expr) and isinstance(st.value, ast.Constant):
        return True
    if isinstance(st, ast.Expr) and isinstance(st.value, ast.Call):
        f = _u(st.value.func)
        return f.startswith("self.sys_log.") or f.startswith("_LOGGER.")
    return False


def _member(e: ast.AST) -> str:
    """`NodeOperatingState.<M>` -> the model's constructor"""
    if isinstance(e, ast.Attribute) and _u(e.value) == "NodeOperatingState" and e.attr in MEMBERS:
        return MEMBERS[e.attr]
    raise Unsupported(f"not a NodeOperatingState member: `{_u(e)}`")


def _is_int(e: ast.AST) -> bool:
    try:
        iexpr(e)
        return True
    except Unsupported:
        return False


def iexpr(e: ast.AST) -> str:
    if isinstance(e, ast.Constant) and isinstance(e.value, int) and not isinstance(e.value, bool):
        return f"(.lit {e.value})" if e.value >= 0 else f"(.lit ({e.value}))"
    if isinstance(e, ast.UnaryOp) and isinstance(e.op, ast.USub) and isinstance(e.operand, ast.Constant) \
            and isinstance(e.operand.value, int) and not isinstance(e.operand.value, bool):
        return f"(.lit (-{e.operand.value}))"
    if isinstance(e, ast.Attribute) and _u(e) in INTS:
        return "." + INTS[_u(e)]
    if isinstance(e, ast.BinOp) and isinstance(e.op, (ast.Add, ast.Sub)):
        return f"(.{'add' if isinstance(e.op, ast.Add) else 'sub'} {iexpr(e.left)} {iexpr(e.right)})"
    raise Unsupported(f"integer expression `{_u(e)}`")


def _state_test(other: ast.AST, op: ast.cmpop) -> str:
    if isinstance(op, (ast.Eq, ast.Is)):
        return f"(.stIs .{_member(other)})"
    if isinstance(op, (ast.NotEq, ast.IsNot)):
        return f"(.not (.stIs .{_member(other)}))"
    if isinstance(op, (ast.In, ast.NotIn)) and isinstance(other, (ast.Tuple, ast.List, ast.Set)):
        s = "(.lit false)"
        for m in reversed(other.elts):
            s = f"(.or (.stIs .{_member(m)}) {s})"
        return s if isinstance(op, ast.In) else f"(.not {s})"
    raise Unsupported(f"test of operating_state with `{type(op).__name__}`")


def bexpr(e: ast.AST) -> str:
    """Lean BExpr for Python's `bool(e)`"""
    if isinstance(e, ast.Constant) and isinstance(e.value, bool):
        return f"(.lit {'true' if e.value else 'false'})"
    s = _u(e)
    if isinstance(e, ast.Name) and e.id in _LOCALS:
        return f"(.lit {'true' if _LOCALS[e.id] else 'false'})"
    if s == RESETTING:
        return ".resetting"
    if s == STATE:
        return "(.lit true)"      # an Enum member is always truthy
    if isinstance(e, ast.Attribute) and _u(e.value) in (STATE, "NodeOperatingState") and e.attr in MEMBERS:
        return "(.lit true)"      # `self.operating_state.ON` is the member ON itself (always truthy), not a test
    if isinstance(e, ast.UnaryOp) and isinstance(e.op, ast.Not):
        return f"(.not {bexpr(e.operand)})"
    if isinstance(e, ast.BoolOp):
        k = "and" if isinstance(e.op, ast.And) else "or"
        out = bexpr(e.values[-1])
        for v in reversed(e.values[:-1]):
            out = f"(.{k} {bexpr(v)} {out})"
        return out
    if isinstance(e, ast.Compare):
        parts = []
        left = e.left
        for op, right in zip(e.ops, e.comparators):
            if _u(left) == STATE:
                parts.append(_state_test(right, op))
            elif _u(right) == STATE and isinstance(op, (ast.Eq, ast.NotEq, ast.Is, ast.IsNot)):
                parts.append(_state_test(left, op))
            elif isinstance(op, (ast.Eq, ast.Is, ast.NotEq, ast.IsNot)) and isinstance(right, ast.Constant) \
                    and isinstance(right.value, bool) and _u(left) == RESETTING:
                pos = isinstance(op, (ast.Eq, ast.Is)) == right.value
                parts.append(".resetting" if pos else "(.not .resetting)")
            elif type(op) in CMPS and _is_int(left) and _is_int(right):
                parts.append(f"(.cmp .{CMPS[type(op)]} {iexpr(left)} {iexpr(right)})")
            else:
                raise Unsupported(f"comparison `{_u(e)}`")
            left = right
        out = parts[-1]
        for p in reversed(parts[:-1]):
            out = f"(.and {p} {out})"
        return out
    if _is_int(e):
        return f"(.truthy {iexpr(e)})"
    raise Unsupported(f"condition `{s}`")


def _power_call(e: ast.AST):
    """`self.power_on()` / `self.power_off()` without arguments -> Call constructor, else None"""
    if isinstance(e, ast.Call) and _u(e.func) in CALLS:
        if e.args or e.keywords:
            raise Unsupported(f"arguments in `{_u(e)}`")
        return CALLS[_u(e.func)]
    return None


def _nics_quant(e: ast.AST):
    """`all(<x>.enable() for <x> in self.network_interfaces.values())` (generator: short-circuit) or the same over a list
    comprehension (every interface is called first) -> (quantifier, short-circuit, verb), else None"""
    if not (isinstance(e, ast.Call) and isinstance(e.func, ast.Name) and e.func.id in ("all", "any") and len(e.args) == 1
            and not e.keywords and isinstance(e.args[0], (ast.GeneratorExp, ast.ListComp))):
        return None
    g = e.args[0]
    if len(g.generators) != 1 or g.generators[0].ifs or g.generators[0].is_async:
        raise Unsupported(f"comprehension `{_u(e)[:80]}`")
    c = g.generators[0]
    if _u(c.iter) not in ("self.network_interfaces.values()", "list(self.network_interfaces.values())") or not isinstance(c.target, ast.Name):
        raise Unsupported(f"comprehension over `{_u(c.iter)}`")
    el = g.elt
    if not (isinstance(el, ast.Call) and isinstance(el.func, ast.Attribute) and _u(el.func.value) == c.target.id
            and el.func.attr in ("enable", "disable") and not el.args and not el.keywords):
        raise Unsupported(f"comprehension element `{_u(el)[:80]}`")
    return e.func.id, isinstance(g, ast.GeneratorExp), el.func.attr


_NODE = None
_INLINING: List[str] = []


def _helper_body(e: ast.AST):
    """`self._helper()` where `_helper` is another method of Node (not a power method, not the start-up / shut-down actions):
    the helper's translated body (inlined; recursion and arguments are refused), else None"""
    if not (isinstance(e, ast.Call) and isinstance(e.func, ast.Attribute) and _u(e.func.value) == "self"):
        return None
    name = e.func.attr
    if _u(e.func) in CALLS or _u(e.func) in ACTIONS or _NODE is None:
        return None
    try:
        fn = find_method(_NODE, name)
    except Exception:
        return None
    if e.args or e.keywords:
        raise Unsupported(f"arguments in `{_u(e)}`")
    if name in _INLINING or len(_INLINING) >= 3:
        raise Unsupported(f"helper `{name}` is recursive or nested too deeply")
    if any(isinstance(d, ast.Name) and d.id == "property" for d in fn.decorator_list):
        raise Unsupported(f"`{name}` is a property")
    _INLINING.append(name)
    saved = dict(_LOCALS)
    _LOCALS.clear()          # a helper has its own scope
    try:
        return stmts(fn.body, name)
    finally:
        _INLINING.pop()
        _LOCALS.clear()
        _LOCALS.update(saved)


def _loop(st: ast.For) -> str:
    """`for x in self.<coll>[.values()|.items()]: <x | self.<coll>[x]>.<m>()` with one statement in the body"""
    if st.orelse or len([b for b in st.body if not _is_noise(b)]) != 1:
        raise Unsupported(f"loop `{_u(st)[:80]}`")
    b = [b for b in st.body if not _is_noise(b)][0]
    if not (isinstance(b, ast.Expr) and isinstance(b.value, ast.Call) and isinstance(b.value.func, ast.Attribute)):
        raise Unsupported(f"loop body `{_u(b)[:80]}`")
    it = _u(st.iter)
    meth = b.value.func.attr
    recv = _u(b.value.func.value)
    call_args, call_kws = list(b.value.args), list(b.value.keywords)
    unbound_of = None
    if isinstance(b.value.func.value, ast.Name) and b.value.func.value.id in UNBOUND_CLASSES and call_args:
        # `Class.method(obj, …)` is `obj.method(…)` resolved at `Class` (a subclass's override is bypassed). The model's verbs ARE
        # the base classes' methods (`Application.run` opens the application, …), so the modelled effect is the same.
        unbound_of = UNBOUND_CLASSES[b.value.func.value.id]
        recv = _u(call_args[0])
        call_args = call_args[1:]
    for coll in ("network_interfaces", "services", "applications"):
        forms = {}
        if isinstance(st.target, ast.Name):
            forms[f"self.{coll}.values()"] = [st.target.id]
            forms[f"self.{coll}"] = [f"self.{coll}[{st.target.id}]"]
            forms[f"self.{coll}.keys()"] = [f"self.{coll}[{st.target.id}]"]
            forms[f"list(self.{coll}.values())"] = [st.target.id]
        elif isinstance(st.target, ast.Tuple) and len(st.target.elts) == 2 and all(isinstance(x, ast.Name) for x in st.target.elts):
            forms[f"self.{coll}.items()"] = [st.target.elts[1].id, f"self.{coll}[{st.target.elts[0].id}]"]
        if it in forms and recv in forms[it]:
            if unbound_of is not None and unbound_of != coll:
                raise Unsupported(f"unbound call of another collection's class in `{_u(b)[:80]}`")
            if coll == "network_interfaces":
                if meth == "apply_timestep":
                    return ".skip"      # interfaces keep no modelled clock
                if call_args or call_kws:
                    raise Unsupported(f"arguments in `{_u(b)}`")
                if meth in ("enable", "disable"):
                    return ".nicsEnable" if meth == "enable" else ".nicsDisable"
            if call_args or call_kws:
                raise Unsupported(f"arguments in `{_u(b)}`")
            if coll == "services" and meth in SVC_VERBS:
                return f"(.svcsEach .{meth})"
            if coll == "applications" and meth in APP_VERBS:
                return f"(.appsEach .{meth})"
    raise Unsupported(f"loop `{_u(st)[:80]}`")


def stmt(st: ast.stmt, where: str) -> str:
    if _is_noise(st):
        return ".skip"
    if isinstance(st, ast.If):
        t = stmts(st.body, where)
        e = stmts(st.orelse, where)
        test, neg = st.test, False
        if isinstance(test, ast.UnaryOp) and isinstance(test.op, ast.Not):
            test, neg = test.operand, True
        a, b = (e, t) if neg else (t, e)
        k = _power_call(test)
        if k:
            return f"(.ifCall .{k} {a} {b})"
        q = _nics_quant(test)
        if q:
            return f"(.ifNicsQ .{q[0]} {'true' if q[1] else 'false'} .{q[2]} {a} {b})"
        h = _helper_body(test)
        if h is not None:
            return f"(.ifBlock {h} {a} {b})"
        return f"(.ite {bexpr(st.test)} {t} {e})"
    if isinstance(st, ast.Return):
        if st.value is None or (isinstance(st.value, ast.Constant) and st.value.value is None):
            return ".retNone"
        k = _power_call(st.value)
        if k:
            return f"(.retCall .{k})"
        q = _nics_quant(st.value)
        if q:
            return f"(.retNicsQ .{q[0]} {'true' if q[1] else 'false'} .{q[2]})"
        h = _helper_body(st.value)
        if h is not None:
            return f"(.retBlock {h})"
        return f"(.ret {bexpr(st.value)})"
    if isinstance(st, ast.Assign) and len(st.targets) == 1:
        tgt = _u(st.targets[0])
        if tgt == STATE:
            return f"(.setSt .{_member(st.value)})"
        if tgt in INTS:
            return f"(.{SETTERS[INTS[tgt]]} {iexpr(st.value)})"
        if tgt == RESETTING:
            return f"(.setResetting {bexpr(st.value)})"
        raise Unsupported(f"{where}: assignment to `{tgt}`")
    if isinstance(st, ast.AugAssign) and isinstance(st.op, (ast.Add, ast.Sub)) and _u(st.target) in INTS:
        v = INTS[_u(st.target)]
        return f"(.{SETTERS[v]} (.{'add' if isinstance(st.op, ast.Add) else 'sub'} .{v} {iexpr(st.value)}))"
    if isinstance(st, ast.Expr) and isinstance(st.value, ast.Call):
        k = _power_call(st.value)
        if k:
            return f"(.call .{k})"
        f = _u(st.value.func)
        if f in ACTIONS and not st.value.args and not st.value.keywords:
            return "." + ACTIONS[f]
        if f in ("super().apply_timestep", "super().pre_timestep"):
            return ".skip"
        q = _nics_quant(st.value)
        if q:
            return f"(.nicsQ .{q[0]} {'true' if q[1] else 'false'} .{q[2]})"
        h = _helper_body(st.value)
        if h is not None:
            return f"(.block {h})"
        raise Unsupported(f"{where}: call `{_u(st)[:80]}`")
    if isinstance(st, ast.For):
        return _loop(st)
    raise Unsupported(f"{where}: statement `{_u(st)[:80]}`")


# local variables of a node method (round 7c). A local holds the TRUTH VALUE of what was assigned to it (the answer of
# `self.power_on()` / `self.power_off()`, of a helper, of `all(…)` / `any(…)` over the interfaces, or a condition evaluated at that
# point); the translation branches on that value where it is assigned and translates the REST OF THE BLOCK once per value, with the
# local replaced by the literal (continuation duplication: no environment is needed in the interpreter, and the order of
# evaluation is the source's). A use outside the block of the assignment, or as anything but a truth value (an int), is refused.
_LOCALS: dict = {}


def _with_local(x: str, v: bool, real: List[ast.stmt], where: str) -> str:
    missing = object()
    old = _LOCALS.get(x, missing)
    _LOCALS[x] = v
    try:
        return _seq(real, where)
    finally:
        if old is missing:
            del _LOCALS[x]
        else:
            _LOCALS[x] = old


def _seq(real: List[ast.stmt], where: str) -> str:
    if not real:
        return ".skip"
    st = real[0]
    if isinstance(st, ast.Assign) and len(st.targets) == 1 and isinstance(st.targets[0], ast.Name):
        x = st.targets[0].id
        # the test is evaluated (its calls are made) BEFORE the local changes: translate it first, under the old binding
        k = _power_call(st.value)
        q = None if k else _nics_quant(st.value)
        h = None if (k or q) else _helper_body(st.value)
        c = None if (k or q or h is not None) else bexpr(st.value)
        a, b = _with_local(x, True, real[1:], where), _with_local(x, False, real[1:], where)
        if k:
            return f"(.ifCall .{k} {a} {b})"
        if q:
            return f"(.ifNicsQ .{q[0]} {'true' if q[1] else 'false'} .{q[2]} {a} {b})"
        if h is not None:
            return f"(.ifBlock {h} {a} {b})"
        return f"(.ite {c} {a} {b})"
    s = stmt(st, where)
    r = _seq(real[1:], where)
    return s if r == ".skip" else f"(.seq {s} {r})"


def stmts(body: List[ast.stmt], where: str) -> str:
    return _seq([s for s in body if not _is_noise(s)], where)


POWER_WORDS = ("start_up_countdown", "shut_down_countdown", "start_up_duration", "shut_down_duration", "is_resetting",
               "power_on", "power_off", "_start_up_actions", "_shut_down_actions", "network_interface")
SOFTWARE_WORDS = ("self.services", "self.applications", "self.processes", "self.file_system", "node_scan_countdown",
                  "red_scan_countdown")


def tick_power_part(fn: ast.FunctionDef) -> List[ast.stmt]:
    """the top-level statements of apply_timestep outside the software block: everything except top-level statements that
    touch the software (those are classified, with the power test they sit under, by power.guarded_statements)"""
    out = []
    for st in fn.body:
        if _is_noise(st):
            continue
        src = _u(st)
        sw = any(w in src for w in SOFTWARE_WORDS)
        pw = any(w in src for w in POWER_WORDS)
        assigns_state = any(isinstance(n, (ast.Assign, ast.AugAssign)) and STATE in
                            [_u(t) for t in (n.targets if isinstance(n, ast.Assign) else [n.target])] for n in ast.walk(st))
        if sw and (pw or assigns_state):
            raise Unsupported(f"apply_timestep: a statement mixes power and software: `{src[:80]}`")
        if sw:
            continue
        out.append(st)
    return out


def programs() -> dict:
    global _NODE
    node = class_def(parse(BASE), "Node")
    _NODE = node
    progs = {
        "powerOnProg": stmts(find_method(node, "power_on").body, "power_on"),
        "powerOffProg": stmts(find_method(node, "power_off").body, "power_off"),
        "resetProg": stmts(find_method(node, "reset").body, "reset"),
        "tickPowerProg": stmts(tick_power_part(find_method(node, "apply_timestep")), "apply_timestep"),
        "startUpActionsProg": stmts(find_method(node, "_start_up_actions").body, "_start_up_actions"),
        "shutDownActionsProg": stmts(find_method(node, "_shut_down_actions").body, "_shut_down_actions"),
    }
    return progs


# the translated bodies as functions, bottom-up along the call graph reset -> power_off -> power_on -> actions (constant text)
RUNNERS = """
/-! the translated bodies as functions, callees bound to the translated callees -/
def genStart (n : Node) : Node := (runBody {} startUpActionsProg n).1
def genShut (n : Node) : Node := (runBody {} shutDownActionsProg n).1
def genOn (n : Node) : Node × Option Bool := runBody { start := genStart, shut := genShut } powerOnProg n
def genOnB (n : Node) : Node × Bool := ((genOn n).1, (genOn n).2.getD false)
def genOff (n : Node) : Node × Option Bool := runBody { start := genStart, shut := genShut, on := genOnB } powerOffProg n
def genOffB (n : Node) : Node × Bool := ((genOff n).1, (genOff n).2.getD false)
def genReset (n : Node) : Node × Option Bool :=
  runBody { start := genStart, shut := genShut, on := genOnB, off := genOffB } resetProg n
def genTickPower (n : Node) : Node × Option Bool :=
  runBody { start := genStart, shut := genShut, on := genOnB, off := genOffB } tickPowerProg n
"""


# ------------------------------------------------------------------------------------------------ the interfaces' enable() / disable()
AIR = "simulator/network/airspace.py"
NODE_REF = "self._connected_node"
LINK_REF = "self._connected_link"
# (definition name, file, class, method, the class whose method `super()` reaches: None = the abstract NetworkInterface)
IFACE_METHODS = [
    ("wiredEnableProg", BASE, "WiredNetworkInterface", "enable", None),
    ("wiredDisableProg", BASE, "WiredNetworkInterface", "disable", None),
    ("ipWiredEnableProg", BASE, "IPWiredNetworkInterface", "enable", "WiredNetworkInterface"),
    ("wirelessEnableProg", AIR, "WirelessNetworkInterface", "enable", None),
    ("wirelessDisableProg", AIR, "WirelessNetworkInterface", "disable", None),
    ("ipWirelessEnableProg", AIR, "IPWirelessNetworkInterface", "enable", "WirelessNetworkInterface"),
]
# statements without a modelled effect; one that mentions `self._connected_node.` / `self._connected_link.` still DEREFERENCES it
IFACE_INERT_CALLS = ("_LOGGER.", "self._connected_node.sys_log.", "self._connected_link.endpoint_up", "self._connected_link.endpoint_down",
                     "self.airspace.add_wireless_interface", "self.airspace.remove_wireless_interface",
                     "self._connected_node.default_gateway_hello")


class _Locals:
    def __init__(self):
        self.ix = {}

    def of(self, name: str, create: bool) -> int:
        if name not in self.ix:
            if not create:
                raise Unsupported(f"local variable `{name}` read before any assignment in the method")
            self.ix[name] = len(self.ix)
        return self.ix[name]


def _is_super_call(e: ast.AST, meth: str) -> bool:
    if isinstance(e, ast.Call) and _u(e.func) == f"super().{meth}":
        if e.args or e.keywords:
            raise Unsupported(f"arguments in `{_u(e)}`")
        return True
    return False


def ibexpr(e: ast.AST, loc: _Locals) -> str:
    if isinstance(e, ast.Constant) and isinstance(e.value, bool):
        return f"(.lit {'true' if e.value else 'false'})"
    s = _u(e)
    if s == "self.enabled":
        return ".enabled"
    if s == NODE_REF:
        return ".node"
    if s == LINK_REF:
        return ".link"
    if isinstance(e, ast.Name):
        return f"(.var {loc.of(e.id, False)})"
    if isinstance(e, ast.UnaryOp) and isinstance(e.op, ast.Not):
        return f"(.not {ibexpr(e.operand, loc)})"
    if isinstance(e, ast.BoolOp):
        k = "and" if isinstance(e.op, ast.And) else "or"
        out = ibexpr(e.values[-1], loc)
        for v in reversed(e.values[:-1]):
            out = f"(.{k} {ibexpr(v, loc)} {out})"
        return out
    if isinstance(e, ast.Call) and _u(e.func) == "hasattr" and len(e.args) == 2 and _u(e.args[0]) == NODE_REF \
            and isinstance(e.args[1], ast.Constant) and e.args[1].value == "default_gateway_hello":
        return ".nodeHasHello"
    if isinstance(e, ast.Compare) and len(e.ops) == 1:
        l, op, r = e.left, e.ops[0], e.comparators[0]
        if _u(r) == NODE_REF + ".operating_state":
            l, r = r, l
        if _u(l) == NODE_REF + ".operating_state" and isinstance(op, (ast.Eq, ast.Is, ast.NotEq, ast.IsNot)):
            t = f"(.nodeStIs .{_member(r)})"
            return t if isinstance(op, (ast.Eq, ast.Is)) else f"(.not {t})"
        if _u(l) == "self.enabled" and isinstance(r, ast.Constant) and isinstance(r.value, bool) \
                and isinstance(op, (ast.Eq, ast.Is, ast.NotEq, ast.IsNot)):
            return ".enabled" if isinstance(op, (ast.Eq, ast.Is)) == r.value else "(.not .enabled)"
        if isinstance(r, ast.Constant) and r.value is None and _u(l) in (NODE_REF, LINK_REF) and isinstance(op, (ast.Is, ast.IsNot, ast.Eq, ast.NotEq)):
            t = ".node" if _u(l) == NODE_REF else ".link"
            return f"(.not {t})" if isinstance(op, (ast.Is, ast.Eq)) else t
    raise Unsupported(f"interface condition `{s}`")


def _deref(st: ast.stmt) -> str:
    """the dereferences a statement without modelled effect still makes"""
    src = _u(st)
    out = []
    if NODE_REF + "." in src:
        out.append(".useNode")
    if LINK_REF + "." in src:
        out.append(".useLink")
    if not out:
        return ".skip"
    return out[0] if len(out) == 1 else f"(.seq {out[0]} {out[1]})"


def istmt(st: ast.stmt, meth: str, loc: _Locals, where: str) -> str:
    if isinstance(st, ast.Pass) or (isinstance(st, ast.Expr) and isinstance(st.value, ast.Constant)):
        return ".skip"
    if isinstance(st, ast.If):
        c = ibexpr(st.test, loc)
        return f"(.ite {c} {istmts(st.body, meth, loc, where)} {istmts(st.orelse, meth, loc, where)})"
    if isinstance(st, ast.Return):
        if st.value is None or (isinstance(st.value, ast.Constant) and st.value.value is None):
            return ".retNone"
        if _is_super_call(st.value, meth):
            return ".retSuper"
        if isinstance(st.value, ast.Name):
            return f"(.retVar {loc.of(st.value.id, False)})"
        return f"(.ret {ibexpr(st.value, loc)})"
    if isinstance(st, ast.Assign) and len(st.targets) == 1:
        tgt = st.targets[0]
        if _u(tgt) == "self.enabled":
            return f"(.setEnabled {ibexpr(st.value, loc)})"
        if _u(tgt) == "self.pcap":          # the capture object: no modelled state, but its arguments read the node
            return _deref(st)
        if isinstance(tgt, ast.Name):
            if _is_super_call(st.value, meth):
                return f"(.superCall (some {loc.of(tgt.id, True)}))"
            v = ibexpr(st.value, loc)
            return f"(.assign {loc.of(tgt.id, True)} {v})"
        raise Unsupported(f"{where}: assignment to `{_u(tgt)}`")
    if isinstance(st, ast.Expr) and isinstance(st.value, ast.Call):
        if _is_super_call(st.value, meth):
            return "(.superCall none)"
        f = _u(st.value.func)
        if any(f.startswith(p) for p in IFACE_INERT_CALLS):
            return _deref(st)
        raise Unsupported(f"{where}: call `{_u(st)[:80]}`")
    raise Unsupported(f"{where}: statement `{_u(st)[:80]}`")


def istmts(body: List[ast.stmt], meth: str, loc: _Locals, where: str) -> str:
    parts = [istmt(st, meth, loc, where) for st in body]      # in source order: local variables are numbered as they appear
    parts = [x for x in parts if x != ".skip"]
    out = ".skip"
    for x in reversed(parts):
        out = x if out == ".skip" else f"(.seq {x} {out})"
    return out


def iface_programs() -> dict:
    out = {}
    for name, path, cls, meth, sup in IFACE_METHODS:
        c = class_def(parse(path), cls)
        fn = find_method(c, meth)
        if fn.args.args[1:] or fn.args.vararg or fn.args.kwarg or fn.args.kwonlyargs:
            raise Unsupported(f"{cls}.{meth} takes arguments")
        if sup is not None:
            # `super()` reaches the first base that defines the method: it must be the first base
            if not c.bases or _u(c.bases[0]) != sup:
                raise Unsupported(f"{cls}: first base is `{_u(c.bases[0]) if c.bases else None}`, expected `{sup}`")
        out[name] = istmts(fn.body, meth, _Locals(), f"{cls}.{meth}")
    return out


IFACE_RUNNERS = """
/-! the interfaces' translated bodies as functions; `super()` bound to the translated body of the class it reaches -/
def genWiredEnable (c : IfCtx) : IOut := runI absIface wiredEnableProg c
def genWiredDisable (c : IfCtx) : IOut := runI absIface wiredDisableProg c
def genIpWiredEnable (c : IfCtx) : IOut := runI genWiredEnable ipWiredEnableProg c
def genWirelessEnable (c : IfCtx) : IOut := runI absIface wirelessEnableProg c
def genWirelessDisable (c : IfCtx) : IOut := runI absIface wirelessDisableProg c
def genIpWirelessEnable (c : IfCtx) : IOut := runI genWirelessEnable ipWirelessEnableProg c
"""


def emit() -> str:
    progs = programs()
    lines = ["import PrimaiteModel.Model.PowerProg", "namespace Primaite.Gen.PowerProg", "open Primaite.Power", ""]
    doc = {"powerOnProg": "Node.power_on", "powerOffProg": "Node.power_off", "resetProg": "Node.reset",
           "tickPowerProg": "Node.apply_timestep outside the software block",
           "startUpActionsProg": "Node._start_up_actions", "shutDownActionsProg": "Node._shut_down_actions"}
    for k, v in progs.items():
        lines.append(f"/-- `{doc[k]}`, translated statement by statement -/")
        lines.append(f"def {k} : PStmt :=\n  {v}")
    lines.append(RUNNERS)
    for k, v in iface_programs().items():
        c, m = next((c, m) for n, _, c, m, _ in IFACE_METHODS if n == k)
        lines.append(f"/-- `{c}.{m}`, translated statement by statement -/")
        lines.append(f"def {k} : IStmt :=\n  {v}")
    lines.append(IFACE_RUNNERS)
    lines.append("end Primaite.Gen.PowerProg")
    return "\n".join(lines) + "\n"


if __name__ == "__main__":
    print(emit())
