"""Round 7b — the CALLERS of the request layer and the step around it.  Pure ast, strict.

(1) form path: the request the mask checks and the request the step executes are formed by the same function from the same pair:
    maskFormCall      the `form_request` call of `PrimaiteGame.action_mask`
    stepSteps         statements of `PrimaiteGame.apply_agent_actions` (loop flattened; logging dropped)
    formatRequest     body of `AbstractAgent.format_request`
    formRequestBody   body of `ActionManager.form_request`
    formOverrides     every OTHER definition of `format_request` in game/ and every `form_request` that is not a classmethod /
                      staticmethod of an action class reading only its `config` (must be [])
(2) callers: every call of `.apply_request(…)` / `…_request_manager(…)` in the package with the enclosing function and what is done
    with the response (`returned`, `stored:<attr>+returned`, `handed:<callee>`, `ignored`, …); every definition of
    `process_action_response` with its statements; every function of game/ that READS a recorded response (`.response.status`,
    `.response.data`, a parameter named `last_action_response`) with whether its body can reach the simulation (`simulation`,
    `apply_request`, `_request_manager`, `software_manager`, `file_system`, `.network`)
(3) pre_timestep: per class that defines it under simulator/: attributes it assigns (incl. one level of `self.<method>()` helpers of the
    same class and `self.<attr>.<method>()` helpers found by name), the calls it makes other than `super().pre_timestep` and
    `<child>.pre_timestep`; and the attributes the permission rules READ (every `RequestPermissionValidator.__call__` and the
    look-ups they call: `get_folder`, `get_file`, incl. the attributes of `self.<bound component>`)."""
from __future__ import annotations

import ast
from typing import Dict, List, Tuple

from harness.extract.util import class_def, find_method, parse
from harness.lib.core import SRC

GEN_NAME = "RequestCallers"


def _s(x: str) -> str:
    return '"' + x.replace("\\", "\\\\").replace('"', '\\"') + '"'


def _lst(xs) -> str:
    return "[" + ", ".join(_s(x) for x in xs) + "]"


def _body(fn) -> list:
    return [st for st in fn.body if not (isinstance(st, ast.Expr) and isinstance(st.value, ast.Constant))]


def _flat(body) -> List[str]:
    out = []
    for st in body:
        if isinstance(st, ast.Expr) and isinstance(st.value, ast.Constant):
            continue
        if isinstance(st, ast.If) and "SIM_OUTPUT.save_agent_logs" in ast.unparse(st.test):
            continue   # logging
        if isinstance(st, ast.For):
            out.append(f"for {ast.unparse(st.target)} in {ast.unparse(st.iter)}")
            out += _flat(st.body)
        elif isinstance(st, (ast.Assign, ast.Return, ast.Expr, ast.AugAssign)):
            out.append(" ".join(ast.unparse(st).split()))
        else:
            raise ValueError("unrecognised statement: " + ast.unparse(st)[:100])
    return out


def _functions(tree):
    """(qualified name, node) of every function / lambda with its enclosing class"""
    out = []

    def walk(n, prefix):
        for ch in ast.iter_child_nodes(n):
            if isinstance(ch, ast.ClassDef):
                walk(ch, prefix + [ch.name])
            elif isinstance(ch, (ast.FunctionDef, ast.AsyncFunctionDef)):
                out.append((".".join(prefix + [ch.name]), ch))
                walk(ch, prefix + [ch.name])
            else:
                walk(ch, prefix)
    walk(tree, [])
    return out


# ------------------------------------------------------------------------------------------------- (1) form path
def form_path() -> Dict[str, object]:
    game = class_def(parse("game/game.py"), "PrimaiteGame")
    mask_calls = [ast.unparse(x) for x in ast.walk(find_method(game, "action_mask"))
                  if isinstance(x, ast.Call) and isinstance(x.func, ast.Attribute) and x.func.attr in ("form_request", "format_request")]
    step = _flat(_body(find_method(game, "apply_agent_actions")))
    agent = class_def(parse("game/agent/interface.py"), "AbstractAgent")
    fb = _body(find_method(agent, "format_request"))
    if (len(fb) >= 2 and isinstance(fb[-2], ast.Assign) and len(fb[-2].targets) == 1 and isinstance(fb[-2].targets[0], ast.Name)
            and isinstance(fb[-1], ast.Return) and isinstance(fb[-1].value, ast.Name) and fb[-1].value.id == fb[-2].targets[0].id):
        fb = fb[:-2] + [ast.Return(value=fb[-2].value)]   # `t = E; return t` is `return E`
    fmt = _flat(fb)
    mgr = class_def(parse("game/agent/actions/manager.py"), "ActionManager")
    form = _flat(_body(find_method(mgr, "form_request")))
    overrides = []
    for f in sorted((SRC / "game").rglob("*.py")):
        rel = str(f.relative_to(SRC))
        for q, fn in _functions(ast.parse(f.read_text())):
            if fn.name == "format_request" and q != "AbstractAgent.format_request":
                overrides.append(f"{rel}:{q}")
            if fn.name == "form_request" and q != "ActionManager.form_request":
                decos = [ast.unparse(d) for d in fn.decorator_list]
                params = [a.arg for a in fn.args.args]
                # a pure function of `config`: bound to the class (classmethod and/or staticmethod, the implicit parameter — whatever its
                # name — never read), one explicit parameter `config`, no global / nonlocal
                implicit = params[0] if len(params) == 2 else None
                shape_ok = params == ["config"] or (len(params) == 2 and params[1] == "config")
                reads_implicit = implicit is not None and any(isinstance(x, ast.Name) and x.id == implicit for b in fn.body for x in ast.walk(b))
                if not any(d in ("classmethod", "staticmethod") for d in decos) or not shape_ok or reads_implicit \
                        or any(isinstance(x, (ast.Global, ast.Nonlocal)) for x in ast.walk(fn)):
                    overrides.append(f"{rel}:{q}")
    return {"mask": mask_calls, "step": step, "fmt": fmt, "form": form, "overrides": overrides}


# ------------------------------------------------------------------------------------------------- (2) callers
REACH_ATTRS = ("simulation", "apply_request", "_request_manager", "software_manager", "file_system", "network", "nodes", "get_node_by_hostname")


def callers() -> Tuple[List[str], List[str], List[str]]:
    sites, procs, readers = [], [], []
    for f in sorted(SRC.rglob("*.py")):
        rel = str(f.relative_to(SRC))
        tree = ast.parse(f.read_text())
        parent = {}
        for n in ast.walk(tree):
            for ch in ast.iter_child_nodes(n):
                parent[id(ch)] = n
        for q, fn in _functions(tree):
            own = [x for x in ast.walk(fn)]
            inner = {id(y) for q2, f2 in _functions(fn) for y in ast.walk(f2)}   # nested defs are listed on their own
            for call in own:
                if id(call) in inner or not isinstance(call, ast.Call):
                    continue
                fsrc = ast.unparse(call.func)
                if not (fsrc.endswith(".apply_request") or fsrc.endswith("._request_manager") or fsrc == "self._request_manager"):
                    continue
                par = parent.get(id(call))
                if isinstance(par, ast.Return):
                    use = "returned"
                elif isinstance(par, ast.Lambda):
                    use = "returned(lambda)"
                elif isinstance(par, ast.Assign):
                    tgt = ast.unparse(par.targets[0])
                    later = [s for s in _body(fn) if getattr(s, "lineno", 0) > par.lineno]
                    handed = sorted({ast.unparse(c.func) for s in later for c in ast.walk(s) if isinstance(c, ast.Call)
                                     and any(isinstance(a, ast.Name) and a.id == tgt for a in list(c.args) + [k.value for k in c.keywords])})
                    ret = any(isinstance(s, ast.Return) and s.value is not None and ast.unparse(s.value) == tgt for s in later)
                    use = ("stored:" + tgt if "." in tgt else "local") + ("+returned" if ret else "") + "".join("+handed:" + h for h in handed)
                    if isinstance(parent.get(id(par)), ast.For) or any(isinstance(a, ast.For) and par in ast.walk(a) for a in _body(fn)):
                        later_loop = [c for a in _body(fn) if isinstance(a, ast.For) for s in a.body if getattr(s, "lineno", 0) > par.lineno
                                      for c in ast.walk(s) if isinstance(c, ast.Call)
                                      and any(isinstance(k.value, ast.Name) and k.value.id == tgt for k in c.keywords)]
                        for c in later_loop:
                            h = "+handed:" + ast.unparse(c.func)
                            if h not in use:
                                use += h
                elif isinstance(par, ast.Expr):
                    use = "ignored"
                else:
                    use = "other:" + type(par).__name__
                sites.append(f"{rel}:{q}: {fsrc}(…) -> {use}")
            if fn.name == "process_action_response":
                procs.append(f"{rel}:{q}: " + " ; ".join(_flat(_body(fn))))
            if rel.startswith("game/"):
                src = ast.unparse(fn)
                reads = (".response.status" in src or ".response.data" in src
                         or any(a.arg == "last_action_response" for a in fn.args.args))
                if reads and fn.name not in ("process_action_response",):
                    reach = sorted({x.attr for x in ast.walk(fn) if isinstance(x, ast.Attribute) and x.attr in REACH_ATTRS})
                    readers.append(f"{rel}:{q}" + ("" if not reach else " REACHES " + ",".join(reach)))
    return sorted(set(sites)), sorted(set(procs)), sorted(set(readers))


# ------------------------------------------------------------------------------------------------- (3) pre_timestep vs rules
def _stores(fn) -> List[str]:
    out = set()
    for x in ast.walk(fn):
        tgts = []
        if isinstance(x, ast.Assign):
            tgts = x.targets
        elif isinstance(x, (ast.AugAssign, ast.AnnAssign)):
            tgts = [x.target]
        elif isinstance(x, ast.Delete):
            tgts = x.targets
        for t in tgts:
            for e in ([t] if not isinstance(t, ast.Tuple) else t.elts):
                base = e
                while isinstance(base, ast.Subscript):
                    base = base.value
                if isinstance(base, ast.Attribute):
                    out.add(base.attr)
        if isinstance(x, ast.Call) and isinstance(x.func, ast.Attribute) and x.func.attr in (
                "append", "pop", "clear", "update", "remove", "extend", "insert", "setdefault", "add", "discard", "popitem") \
                and isinstance(x.func.value, ast.Attribute):
            out.add(x.func.value.attr)
    return sorted(out)


def pre_timestep() -> Tuple[List[Tuple[str, List[str]]], List[Tuple[str, List[str]]]]:
    writes, calls = [], []
    all_methods: Dict[str, List[Tuple[str, ast.FunctionDef]]] = {}
    files = sorted((SRC / "simulator").rglob("*.py"))
    trees = {str(f.relative_to(SRC)): ast.parse(f.read_text()) for f in files}
    for rel, tree in trees.items():
        for q, fn in _functions(tree):
            all_methods.setdefault(fn.name, []).append((q, fn))
    for rel, tree in trees.items():
        for cls in [n for n in ast.walk(tree) if isinstance(n, ast.ClassDef)]:
            fn = next((m for m in cls.body if isinstance(m, ast.FunctionDef) and m.name == "pre_timestep"), None)
            if fn is None:
                continue
            ws = set(_stores(fn))
            cs = []
            for c in [x for x in ast.walk(fn) if isinstance(x, ast.Call)]:
                fsrc = ast.unparse(c.func)
                if fsrc in ("super().pre_timestep", "super") or fsrc.endswith(".pre_timestep") or fsrc.endswith(".values") or fsrc.endswith(".append"):
                    continue
                cs.append(fsrc)
                name = fsrc.split(".")[-1]
                cands = [fn2 for q2, fn2 in all_methods.get(name, []) if (not fsrc.startswith("self.") or fsrc.count(".") > 1
                                                                           or q2.startswith(cls.name + "."))]
                if not cands:
                    raise ValueError(f"{cls.name}.pre_timestep calls {fsrc}: no definition found under simulator/")
                for fn2 in cands:   # one level: what the helper assigns (every definition of that name: over-approximation)
                    ws |= set(_stores(fn2))
                    for c2 in [x for x in ast.walk(fn2) if isinstance(x, ast.Call)]:
                        f2 = ast.unparse(c2.func)
                        if f2.startswith("self.") and f2.count(".") == 1 and not f2.startswith("self.sys_log") and f2.split(".")[-1] in all_methods:
                            cs.append(fsrc + ">" + f2)
                            for q3, fn3 in all_methods[f2.split(".")[-1]]:
                                ws |= set(_stores(fn3))
            writes.append((cls.name, sorted(ws)))
            calls.append((cls.name, sorted(set(cs))))
    return sorted(writes), sorted(calls)


def rule_reads() -> List[str]:
    """attribute names read (of `self.<bound>` and of what the look-ups iterate) by every RequestPermissionValidator.__call__ and by
    get_folder / get_file"""
    out = set()
    bound = {"node", "network_interface", "service", "application", "file_system", "folder"}
    for f in sorted((SRC / "simulator").rglob("*.py")):
        tree = ast.parse(f.read_text())
        for cls in [n for n in ast.walk(tree) if isinstance(n, ast.ClassDef)]:
            is_rule = any("Validator" in ast.unparse(b) for b in cls.bases)
            for m in [m for m in cls.body if isinstance(m, ast.FunctionDef)]:
                if (is_rule and m.name == "__call__") or (cls.name in ("FileSystem", "Folder") and m.name in ("get_folder", "get_file")):
                    for x in ast.walk(m):
                        if isinstance(x, ast.Attribute) and isinstance(x.ctx, ast.Load):
                            if id(x) in {id(c.func) for c in ast.walk(m) if isinstance(c, ast.Call)} or x.attr == "validators":
                                continue   # a method being called / the parts of a combined validator, not a state field
                            if x.attr in bound or x.attr in ("values", "get", "name", "fail_message", "debug", "sys_log", "info", "warning", "error"):
                                continue
                            if isinstance(x.value, ast.Name) and x.value.id not in ("self",) and x.attr in ("ON", "OFF"):
                                continue
                            out.add(x.attr)
    out -= {"ON", "OFF"}
    return sorted(out)


def emit() -> str:
    fp = form_path()
    sites, procs, readers = callers()
    writes, calls = pre_timestep()
    reads = rule_reads()
    pairs = lambda xs: "[" + ", ".join(f"({_s(a)}, {_lst(b)})" for a, b in xs) + "]"   # noqa: E731
    return "\n".join([
        "namespace Primaite.Gen.RequestCallers",
        "/-- `form_request` / `format_request` calls inside `PrimaiteGame.action_mask` -/",
        f"def maskFormCalls : List String := {_lst(fp['mask'])}",
        "/-- statements of `PrimaiteGame.apply_agent_actions` (loop flattened, logging dropped) -/",
        f"def stepSteps : List String := {_lst(fp['step'])}",
        f"def formatRequestBody : List String := {_lst(fp['fmt'])}",
        f"def formRequestBody : List String := {_lst(fp['form'])}",
        "/-- other definitions of `format_request`, and action `form_request`s that are not classmethods of `config` alone -/",
        f"def formOverrides : List String := {_lst(fp['overrides'])}",
        "/-- every call of `apply_request` / `_request_manager` in the package: where, and what becomes of the response -/",
        f"def requestCallSites : List String := {_lst(sites)}",
        f"def processActionResponse : List String := {_lst(procs)}",
        "/-- functions of game/ that read a recorded response; `REACHES …` = the body mentions a way into the simulation -/",
        f"def responseReaders : List String := {_lst(readers)}",
        f"def responseReadersReaching : List String := {_lst([r for r in readers if ' REACHES ' in r])}",
        "/-- per class defining `pre_timestep`: attributes assigned there (helpers one level deep included) -/",
        f"def preTimestepWrites : List (String × List String) := {pairs(writes)}",
        f"def preTimestepCalls : List (String × List String) := {pairs(calls)}",
        "/-- attributes read by the permission rules and the look-ups they call -/",
        f"def ruleReads : List String := {_lst(reads)}",
        "end Primaite.Gen.RequestCallers", ""])
