"""E4/E6/E7/E8 for the node power machine (C12), read from the source with `ast` (never imports primaite).

Emits Gen/Power.lean:
  * NodeOperatingState members/values, default durations/countdowns of Node.ConfigSchema;
  * (the bodies of Node.power_on / power_off / reset / the countdown blocks of apply_timestep / the start-up and shut-down
    actions are no longer pinned as strings here: harness/extract/power_prog.py translates them, Props/C12Prog.lean proves
    them equal to the model's functions);
  * the guards of WiredNetworkInterface.enable / WirelessNetworkInterface.enable and the `enabled` entry test of every
    interface class's receive_frame / send_frame;
  * the node-is-on / node-is-off validators' predicates;
  * the node-level request routes (key, validator) of every concrete node class, following the class hierarchy;
  * whether Service.start / Application.run / IOSoftware.send / IOSoftware.receive begin with the node-is-on guard.
Strict: an unrecognised statement raises, which breaks the tie visibly.
"""
import ast
from typing import Dict, List, Optional, Tuple

from harness.extract.util import class_def, find_method, parse

GEN_NAME = "Power"

BASE = "simulator/network/hardware/base.py"


class _Lazy(dict):
    """NODE_FILES: node class -> file, read from the class inventory on first use (every class below Node, wherever it is)"""

    def _load(self):
        if not dict.__len__(self):
            for name, _d, _inst, rel in node_inventory():
                dict.__setitem__(self, name, rel)

    def __getitem__(self, k):
        self._load()
        return dict.__getitem__(self, k)

    def __iter__(self):
        self._load()
        return dict.__iter__(self)

    def __contains__(self, k):
        self._load()
        return dict.__contains__(self, k)

    def items(self):
        self._load()
        return dict.items(self)

    def keys(self):
        self._load()
        return dict.keys(self)


NODE_FILES = _Lazy()


def concrete_classes() -> List[str]:
    """instantiable node classes that a scenario file can name (they declare a discriminator)"""
    return [n for n, d, inst, _ in node_inventory() if inst and d]


def _u(e: ast.AST) -> str:
    s = ast.unparse(e)
    return s.replace("self.config.", "").replace("NodeOperatingState.", "").replace("self.", "")


def _is_log(st: ast.stmt) -> bool:
    if isinstance(st, ast.Expr) and isinstance(st.value, ast.Call):
        f = ast.unparse(st.value.func)
        return f.startswith("self.sys_log.") or f.startswith("_LOGGER.") or f.startswith("self._connected_node.sys_log.")
    return isinstance(st, ast.Expr) and isinstance(st.value, ast.Constant)  # docstring


def _nic_loop(st: ast.For) -> Optional[str]:
    if ast.unparse(st.iter) != "self.network_interfaces.values()" or len(st.body) != 1:
        return None
    b = st.body[0]
    if isinstance(b, ast.Expr) and isinstance(b.value, ast.Call):
        f = ast.unparse(b.value.func)
        tgt = ast.unparse(st.target)
        for m in ("enable", "disable", "apply_timestep"):
            if f == f"{tgt}.{m}":
                return f"nics.{m}"
    return None


def guard_list(fn: ast.FunctionDef, where: str) -> List[str]:
    """`if <test>: ...; return` prefixes of an interface's enable(), then the assignment `self.enabled = True`."""
    names = {"self.enabled": "enabled", "not self._connected_node": "no-node",
             "self._connected_node.operating_state != NodeOperatingState.ON": "node-not-on",
             "not self._connected_link": "no-link"}
    out = []
    for st in fn.body:
        if _is_log(st):
            continue
        if isinstance(st, ast.If):
            t = ast.unparse(st.test)
            if t not in names or not isinstance(st.body[-1], ast.Return):
                raise ValueError(f"{where}: unrecognised guard `{t}`")
            out.append(names[t])
            continue
        if isinstance(st, ast.Assign) and ast.unparse(st) == "self.enabled = True":
            return out
        raise ValueError(f"{where}: statement before `self.enabled = True`: `{ast.unparse(st)[:60]}`")
    raise ValueError(f"{where}: `self.enabled = True` not found")


def entry_guarded(fn: ast.FunctionDef) -> bool:
    """first real statement is `if self.enabled:` (everything else under it / falls to `return False`) or
    `if not self.enabled: return False`."""
    body = [s for s in fn.body if not _is_log(s)]
    if not body or not isinstance(body[0], ast.If):
        return False
    t = ast.unparse(body[0].test)
    if t == "self.enabled":
        rest = body[1:]
        return len(rest) == 1 and isinstance(rest[0], ast.Return) and ast.unparse(rest[0].value) == "False"
    if t == "not self.enabled":
        r = body[0].body[-1]
        return isinstance(r, ast.Return) and ast.unparse(r.value) == "False"
    return False


def validator_pred(cls: ast.ClassDef) -> str:
    call = find_method(cls, "__call__")
    body = [s for s in call.body if not _is_log(s)]
    if len(body) != 1 or not isinstance(body[0], ast.Return):
        raise ValueError(f"{cls.name}.__call__: not a single return")
    return _u(body[0].value)


LEAN_STATE = {"ON": ".on", "OFF": ".off", "BOOTING": ".booting", "SHUTTING_DOWN": ".shuttingDown"}


def validator_lean(node_cls: ast.ClassDef, name: str, _depth: int = 0) -> str:
    """the validator's `__call__` as a Lean predicate over the node's power state `s` (semantics, not spelling): comparisons of
    `self.node.operating_state` with members of NodeOperatingState, `in` / `not in` a literal tuple or list, `not`, `and`, `or`,
    and `super().__call__(request, context)` resolved to the (nested) base validator. Anything else raises."""
    if _depth > 4:
        raise ValueError(f"{name}: validator inheritance too deep")
    cls = next((n for n in node_cls.body if isinstance(n, ast.ClassDef) and n.name == name), None)
    if cls is None:
        raise ValueError(f"Node.{name} not found")
    call = find_method(cls, "__call__")
    body = [s for s in call.body if not _is_log(s)]
    if len(body) != 1 or not isinstance(body[0], ast.Return):
        raise ValueError(f"{name}.__call__: not a single return")
    if any(isinstance(n, ast.FunctionDef) and n.name not in ("__call__", "fail_message") for n in cls.body):
        raise ValueError(f"{name}: unexpected method")

    def member(e: ast.expr) -> str:
        t = ast.unparse(e)
        if t.startswith("NodeOperatingState.") and t.split(".", 1)[1] in LEAN_STATE:
            return LEAN_STATE[t.split(".", 1)[1]]
        raise ValueError(f"{name}.__call__: not a NodeOperatingState member: {t}")

    def tr(e: ast.expr) -> str:
        if isinstance(e, ast.Compare) and len(e.ops) == 1 and ast.unparse(e.left) == "self.node.operating_state":
            op, rhs = e.ops[0], e.comparators[0]
            if isinstance(op, (ast.Eq, ast.Is)):
                return f"(s == {member(rhs)})"
            if isinstance(op, (ast.NotEq, ast.IsNot)):
                return f"(s != {member(rhs)})"
            if isinstance(op, (ast.In, ast.NotIn)) and isinstance(rhs, (ast.Tuple, ast.List, ast.Set)):
                inner = " || ".join(f"(s == {member(x)})" for x in rhs.elts) or "false"
                return f"({inner})" if isinstance(op, ast.In) else f"(!({inner}))"
        if isinstance(e, ast.UnaryOp) and isinstance(e.op, ast.Not):
            return f"(!{tr(e.operand)})"
        if isinstance(e, ast.BoolOp):
            return "(" + (" && " if isinstance(e.op, ast.And) else " || ").join(tr(v) for v in e.values) + ")"
        if isinstance(e, ast.Constant) and isinstance(e.value, bool):
            return "true" if e.value else "false"
        if isinstance(e, ast.Call) and ast.unparse(e.func) == "super().__call__":
            bases = [ast.unparse(b) for b in cls.bases]
            nested = [b for b in bases if any(isinstance(n, ast.ClassDef) and n.name == b for n in node_cls.body)]
            if len(nested) != 1:
                raise ValueError(f"{name}: super().__call__ with bases {bases}")
            return validator_lean(node_cls, nested[0], _depth + 1)
        raise ValueError(f"{name}.__call__: untranslatable `{ast.unparse(e)[:80]}`")
    return tr(body[0].value)


def routes_of(cls: ast.ClassDef) -> Optional[List[Tuple[str, str]]]:
    """(key, guard) of every `rm.add_request(...)` on the manager returned by super()._init_request_manager()."""
    try:
        fn = find_method(cls, "_init_request_manager")
    except ValueError:
        return None
    validators: Dict[str, str] = {}
    rm_name = None
    routes: List[Tuple[str, str]] = []
    for st in ast.walk(fn):
        if isinstance(st, ast.Assign) and isinstance(st.value, ast.Call):
            f = ast.unparse(st.value.func)
            tgt = ast.unparse(st.targets[0])
            if f == "super()._init_request_manager":
                rm_name = tgt
            elif f.split(".")[0] in NODE_FILES and f.split(".")[1:] == ["_NodeIsOnValidator"]:
                validators[tgt] = ".nodeOn"  # the nested class is inherited; it is defined once (checked in emit)
            elif f.split(".")[0] in NODE_FILES and f.split(".")[1:] == ["_NodeIsOffValidator"]:
                validators[tgt] = ".nodeOff"
    if rm_name is None:
        raise ValueError(f"{cls.name}._init_request_manager does not start from super()")
    for st in fn.body:  # top-level statements only, in order
        if isinstance(st, ast.Expr) and isinstance(st.value, ast.Call) and ast.unparse(st.value.func) == f"{rm_name}.add_request":
            call = st.value
            args = list(call.args) + [k.value for k in call.keywords if k.arg in ("name", "request_type")]
            if len(args) != 2 or not isinstance(args[0], ast.Constant) or not isinstance(args[0].value, str):
                raise ValueError(f"{cls.name}: add_request with a non-literal key: {ast.unparse(call)[:80]}")
            rt = args[1]
            if not (isinstance(rt, ast.Call) and ast.unparse(rt.func) == "RequestType"):
                raise ValueError(f"{cls.name}: add_request without RequestType(...)")
            g = ".none"
            for k in rt.keywords:
                if k.arg == "validator":
                    v = ast.unparse(k.value)
                    if v not in validators:
                        raise ValueError(f"{cls.name}: route {args[0].value!r} has an unrecognised validator {v}")
                    g = validators[v]
            routes.append((args[0].value, g))
    # no other spelling may add a node-level route: every `rm.add_request` call must be one of the top-level literal statements
    # read above (a loop or a helper that adds routes with computed keys would otherwise be skipped silently)
    top = {id(st.value) for st in fn.body if isinstance(st, ast.Expr) and isinstance(st.value, ast.Call)}
    for n in ast.walk(fn):
        if isinstance(n, ast.Call) and ast.unparse(n.func) in ("self._request_manager.add_request",):
            raise ValueError(f"{cls.name}: node-level route added through self._request_manager")
        if isinstance(n, ast.Call) and ast.unparse(n.func) == f"{rm_name}.add_request" and id(n) not in top:
            raise ValueError(f"{cls.name}: node-level route added outside a top-level literal statement: {ast.unparse(n)[:80]}")
    return routes


def class_tables() -> List[Tuple[str, List[Tuple[str, str]]]]:
    """(discriminator, [(key, guard)]) for every concrete node class, subclass additions applied in MRO order."""
    # --- routes along the class hierarchy
    own: Dict[str, Optional[List[Tuple[str, str]]]] = {}
    bases: Dict[str, Optional[str]] = {}
    discr: Dict[str, Optional[str]] = {}
    for cname, rel in NODE_FILES.items():
        c = class_def(parse(rel), cname)
        own[cname] = routes_of(c)
        bs = [ast.unparse(b) for b in c.bases]
        node_bases = [b for b in bs if b in NODE_FILES]
        if cname != "Node" and len(node_bases) != 1:
            raise ValueError(f"{cname}: expected exactly one node base class, got {bs}")
        bases[cname] = node_bases[0] if cname != "Node" else None
        d = None
        for k in c.keywords:
            if k.arg == "discriminator" and isinstance(k.value, ast.Constant):
                d = k.value.value
        discr[cname] = d
    # the override of a power method or of the request manager anywhere below Node would escape the model
    for cname, rel in NODE_FILES.items():
        if cname == "Node":
            continue
        c = class_def(parse(rel), cname)
        if any(isinstance(n, ast.ClassDef) and n.name in ("_NodeIsOnValidator", "_NodeIsOffValidator") for n in c.body):
            raise ValueError(f"{cname} redefines a node power validator")
        for m in ("power_on", "power_off", "reset", "apply_timestep", "pre_timestep", "_shut_down_actions", "_start_up_actions",
                  "connect_nic", "disconnect_nic", "__setattr__"):
            if any(isinstance(n, ast.FunctionDef) and n.name == m for n in c.body):
                raise ValueError(f"{cname} overrides {m}; the power model only covers Node.{m}")
        if cname != "Router" and any(isinstance(n, ast.FunctionDef) and n.name == "setup_for_episode" for n in c.body):
            raise ValueError(f"{cname} overrides setup_for_episode; only Router's override is modelled")

    def full(cname: str) -> List[Tuple[str, str]]:
        chain = []
        c = cname
        while c is not None:
            chain.append(c)
            c = bases[c]
        table: Dict[str, str] = {}
        for c in reversed(chain):
            for k, g in (own[c] or []):
                table[k] = g  # dict semantics of RequestManager.request_types: a later add overwrites, position kept
        return list(table.items())
    tables = [(discr[c], full(c)) for c in concrete_classes()]
    if any(d is None for d, _ in tables):
        raise ValueError("a concrete node class has no literal discriminator")
    return tables


def _starts_with_node_guard(fn: ast.FunctionDef, call: str, ret: Optional[str]) -> bool:
    body = [s for s in fn.body if not _is_log(s)]
    if not body:
        return False
    st = body[0]
    if isinstance(st, ast.If) and ast.unparse(st.test) == f"not {call}" and isinstance(st.body[-1], ast.Return):
        r = st.body[-1].value
        return (r is None and ret is None) or (r is not None and ast.unparse(r) == ret)
    return False


# ------------------------------------------------------------------------------------------------ class inventories
def _all_classes() -> Dict[Tuple[str, str], ast.ClassDef]:
    """(file relative to src/primaite, class name) -> ClassDef for every class under simulator/ and game/"""
    from harness.lib.core import SRC
    out: Dict[Tuple[str, str], ast.ClassDef] = {}
    for sub in ("simulator", "game"):
        for f in sorted((SRC / sub).rglob("*.py")):
            rel = str(f.relative_to(SRC))
            try:
                tree = ast.parse(f.read_text())
            except SyntaxError as e:  # a file that does not parse cannot define a class anyone uses
                raise ValueError(f"{rel}: {e}")
            for n in tree.body:
                if isinstance(n, ast.ClassDef):
                    out[(rel, n.name)] = n
    return out


def _subclasses_of(root: str) -> List[Tuple[str, str, ast.ClassDef]]:
    """every class that names `root` or a subclass of it among its bases, transitively: (file, name, def), sorted"""
    classes = _all_classes()
    names = {root}
    changed = True
    while changed:
        changed = False
        for (rel, name), c in classes.items():
            if name not in names and any(ast.unparse(b) in names for b in c.bases):
                names.add(name)
                changed = True
    return sorted(((rel, name, c) for (rel, name), c in classes.items() if name in names), key=lambda t: (t[0], t[1]))


def _own_abstract(c: ast.ClassDef) -> Tuple[set, set]:
    """(names declared @abstractmethod in this class, names defined concretely in this class)"""
    ab, conc = set(), set()
    for n in c.body:
        if isinstance(n, ast.FunctionDef):
            decos = {ast.unparse(d) for d in n.decorator_list}
            if "abstractmethod" in decos or "abc.abstractmethod" in decos:
                ab.add(n.name)
            else:
                conc.add(n.name)
    return ab, conc


def node_inventory() -> List[Tuple[str, str, bool, str]]:
    """(class, discriminator or '', instantiable, file) of Node and everything below it, base classes first"""
    subs = _subclasses_of("Node")
    by_name: Dict[str, Tuple[str, ast.ClassDef]] = {}
    for rel, name, c in subs:
        if name in by_name:
            raise ValueError(f"two node classes are called {name}: {by_name[name][0]} and {rel}")
        by_name[name] = (rel, c)

    def chain(name: str) -> List[str]:
        out = [name]
        while True:
            bs = [ast.unparse(b) for b in by_name[out[-1]][1].bases if ast.unparse(b) in by_name]
            if not bs:
                return out
            if len(bs) != 1:
                raise ValueError(f"{out[-1]}: more than one node base class {bs}")
            out.append(bs[0])
    rows = []
    for name in by_name:
        pending: set = set()
        for cname in reversed(chain(name)):  # root first
            ab, conc = _own_abstract(by_name[cname][1])
            pending = (pending - conc) | ab
        d = ""
        for k in by_name[name][1].keywords:
            if k.arg == "discriminator" and isinstance(k.value, ast.Constant):
                d = k.value.value
        rows.append((name, d, not pending, by_name[name][0], len(chain(name))))
    rows.sort(key=lambda r: (r[4], r[3], r[0]))
    return [(n, d, inst, rel) for n, d, inst, rel, _ in rows]


def nic_inventory() -> List[Tuple[str, str, bool]]:
    """(class, file, instantiable) of NetworkInterface and everything below it"""
    subs = _subclasses_of("NetworkInterface")
    defs = {}
    for rel, name, c in subs:
        defs.setdefault(name, []).append((rel, c))

    def pending_of(rel: str, c: ast.ClassDef, seen=()) -> set:
        pend: set = set()
        for b in c.bases:
            bn = ast.unparse(b)
            if bn in defs and bn not in seen:
                # a base that is defined twice: take the definition in the same file, else the first
                cand = [x for x in defs[bn] if x[0] == rel] or defs[bn]
                pend |= pending_of(cand[0][0], cand[0][1], seen + (bn,))
        ab, conc = _own_abstract(c)
        return (pend - conc) | ab
    return [(name, rel, not pending_of(rel, c)) for rel, name, c in subs]


TRANSLATED_IFACE = {("WiredNetworkInterface", "enable"), ("WiredNetworkInterface", "disable"), ("IPWiredNetworkInterface", "enable"),
                    ("WirelessNetworkInterface", "enable"), ("WirelessNetworkInterface", "disable"), ("IPWirelessNetworkInterface", "enable")}


def nic_enable_defs() -> List[Tuple[str, str, str]]:
    """(class, method, kind) for every enable()/disable() defined at or below NetworkInterface: `abstract`, `translated` (the six
    bodies power_prog.py translates statement by statement; their meaning is C12_gen_interface_enable_sem / _disable_sem), `other`.  The theorem pins the list: an override in a
    concrete interface class (which would bypass the node-is-on test) shows up as a new entry."""
    out = []
    for rel, name, c in _subclasses_of("NetworkInterface"):
        for n in c.body:
            if not isinstance(n, ast.FunctionDef) or n.name not in ("enable", "disable"):
                continue
            decos = {ast.unparse(d) for d in n.decorator_list}
            body = [x for x in n.body if not _is_log(x)]
            src = ast.unparse(n)
            if "abstractmethod" in decos:
                kind = "abstract"
            elif (name, n.name) in TRANSLATED_IFACE:
                kind = "translated"   # body translated by power_prog.py (Gen/PowerProg.lean), meaning proved in Props/C12Prog.lean
            else:
                kind = "other"   # listed, so that the theorem pins which classes have one (today: the two unimportable modules)
            out.append((name + "@" + rel.split("/")[-1], n.name, kind))
    return out


# ------------------------------------------------------------------------------------------------ routes registered at RUN TIME
SOFTWARE_MANAGER = "simulator/system/core/software_manager.py"


def runtime_route_sites() -> List[Tuple[str, str, str, str]]:
    """Every `<manager>.add_request(...)` that runs AFTER `Node._init_request_manager` has built the tree — inside a closure of
    `_init_request_manager` (the `install` request handler), in any other method of Node, in `SoftwareManager` — as
    (site, manager attribute, node-level key under which that manager hangs, validator of THAT node-level edge).
    The manager is followed upwards through the managers built in `_init_request_manager` until the node's own manager `rm`;
    raises when a run-time registration goes anywhere else (the node's own manager, a manager that is not wired in
    `_init_request_manager`, a manager attribute that is assigned more than once), because then no table could vouch for it."""
    node = class_def(parse(BASE), "Node")
    init = find_method(node, "_init_request_manager")
    validators: Dict[str, str] = {}
    rm_name = None
    for st in init.body:
        if isinstance(st, ast.Assign) and isinstance(st.value, ast.Call):
            f, tgt = ast.unparse(st.value.func), ast.unparse(st.targets[0])
            if f == "super()._init_request_manager":
                rm_name = tgt
            elif f.endswith("._NodeIsOnValidator"):
                validators[tgt] = ".nodeOn"
            elif f.endswith("._NodeIsOffValidator"):
                validators[tgt] = ".nodeOff"
    if rm_name is None:
        raise ValueError("Node._init_request_manager does not start from super()")
    # edges built at construction time: child manager attribute -> (parent manager, key, validator)
    parent: Dict[str, Tuple[str, str, str]] = {}
    built = set()
    for st in init.body:
        if isinstance(st, ast.Assign) and ast.unparse(st.value) == "RequestManager()":
            built.add(ast.unparse(st.targets[0]))
        if isinstance(st, ast.Expr) and isinstance(st.value, ast.Call) and isinstance(st.value.func, ast.Attribute) \
                and st.value.func.attr == "add_request":
            call = st.value
            par = ast.unparse(call.func.value)
            args = list(call.args) + [k.value for k in call.keywords if k.arg in ("name", "request_type")]
            if len(args) != 2 or not (isinstance(args[1], ast.Call) and ast.unparse(args[1].func) == "RequestType"):
                raise ValueError(f"Node._init_request_manager: unrecognised add_request `{ast.unparse(call)[:80]}`")
            func = next((ast.unparse(k.value) for k in args[1].keywords if k.arg == "func"), None)
            val = next((ast.unparse(k.value) for k in args[1].keywords if k.arg == "validator"), None)
            if func and func.startswith("self._") and func.endswith("_manager") and isinstance(args[0], ast.Constant):
                if func in parent:
                    raise ValueError(f"Node: manager {func} hangs under two routes")
                if val is not None and val not in validators:
                    raise ValueError(f"Node: unrecognised validator {val}")
                parent[func] = (par, str(args[0].value), validators.get(val, ".none") if val else ".none")
    # a manager attribute must be built once, in _init_request_manager (a later re-assignment would detach the guarded edge)
    assigned: Dict[str, int] = {}
    for n in ast.walk(node):
        if isinstance(n, ast.Assign):
            for t in n.targets:
                u = ast.unparse(t)
                if u.startswith("self._") and u.endswith("_manager"):
                    assigned[u] = assigned.get(u, 0) + 1
    top_init_calls = {id(st.value) for st in init.body if isinstance(st, ast.Expr) and isinstance(st.value, ast.Call)}
    sites: List[Tuple[str, str, str, str]] = []

    def visit(owner: str, fn_name: str, call: ast.Call, self_prefix: str):
        tgt = ast.unparse(call.func.value)
        if self_prefix and tgt.startswith(self_prefix):
            tgt = "self." + tgt[len(self_prefix):]
        where = f"{owner}.{fn_name}"
        if tgt in (rm_name, "self._request_manager", "self.node._request_manager"):
            raise ValueError(f"{where}: a route is added to the node's own manager at run time: `{ast.unparse(call)[:80]}`")
        if tgt not in parent:
            raise ValueError(f"{where}: run-time add_request on `{tgt}`, which _init_request_manager does not wire under the node")
        m = tgt
        hops = 0
        while parent[m][0] != rm_name:
            m = parent[m][0]
            hops += 1
            if m not in parent or hops > 6:
                raise ValueError(f"{where}: `{tgt}` does not hang under the node's manager")
        if assigned.get(tgt, 0) != 1 or tgt not in built:
            raise ValueError(f"{where}: manager `{tgt}` is not built exactly once in _init_request_manager")
        sites.append((where, tgt.replace("self.", ""), parent[m][1], parent[m][2]))

    for meth in [n for n in node.body if isinstance(n, ast.FunctionDef)]:
        for n in ast.walk(meth):
            if isinstance(n, ast.Call) and isinstance(n.func, ast.Attribute) and n.func.attr == "add_request":
                if meth.name == "_init_request_manager" and id(n) in top_init_calls:
                    continue   # construction time: the class tables
                inner = meth.name
                for f in ast.walk(meth):
                    if isinstance(f, ast.FunctionDef) and f is not meth and any(x is n for x in ast.walk(f)):
                        inner = f"{meth.name}.{f.name}"
                visit("Node", inner, n, "")
    sm = class_def(parse(SOFTWARE_MANAGER), "SoftwareManager")
    for meth in [n for n in sm.body if isinstance(n, ast.FunctionDef)]:
        for n in ast.walk(meth):
            if isinstance(n, ast.Call) and isinstance(n.func, ast.Attribute) and n.func.attr == "add_request":
                visit("SoftwareManager", meth.name, n, "self.node.")
    return sites


# ------------------------------------------------------------------------------------------------ frame entry points
ENTRY_CALLEES = ("receive_frame", "receive_payload_from_session_manager", "receive")


def _layer_of(cname: str, layers: Dict[str, set]) -> str:
    for layer, names in layers.items():
        if cname in names:
            return layer
    return "other"


def frame_entry_sites() -> List[Tuple[str, str, str, bool]]:
    """every call of `receive_frame(` / `receive_payload_from_session_manager(` / software `.receive(` under simulator/ and
    game/: (caller `Class.function@file`, kind, receiver, lexically under the caller's `if self.enabled:`).
    kind = `<layer of the caller>><layer entered>` with layers wire (Link, AirSpace) < iface < node < sess < swmgr <
    software, or `super` for a call to the same method of the base class.  A call whose receiver is not one of the known
    spellings raises: a new way INTO a node would otherwise go unseen."""
    layers = {
        "iface": {n for _r, n, _c in _subclasses_of("NetworkInterface")},
        "node": {n for _r, n, _c in _subclasses_of("Node")},
        "sess": {n for _r, n, _c in _subclasses_of("SessionManager")},
        "swmgr": {n for _r, n, _c in _subclasses_of("SoftwareManager")},
        "software": {n for _r, n, _c in _subclasses_of("Software")},
        "wire": {"Link", "AirSpace"},
    }
    out = []
    for (rel, cname), c in sorted(_all_classes().items()):
        caller_layer = _layer_of(cname, layers)
        for fn in c.body:
            if not isinstance(fn, ast.FunctionDef):
                continue

            def visit_stmt(ch, under_enabled, fn=fn):
                if isinstance(ch, (ast.FunctionDef, ast.ClassDef)) and ch is not fn:
                    return
                if isinstance(ch, ast.If) and ast.unparse(ch.test) == "self.enabled":
                    for x in ch.body:
                        visit_stmt(x, True)
                    for x in ch.orelse:
                        visit_stmt(x, under_enabled)
                    return
                if isinstance(ch, ast.Call) and isinstance(ch.func, ast.Attribute) and ch.func.attr in ENTRY_CALLEES:
                    recv = ast.unparse(ch.func.value)
                    callee = ch.func.attr
                    if recv == "super()":
                        kind = "super"
                    elif callee == "receive_frame" and recv == "self._connected_node" and caller_layer == "iface":
                        kind = "iface>node"
                    elif callee == "receive_frame" and caller_layer == "wire" and recv in ("receiver", "wireless_interface"):
                        kind = "wire>iface"
                    elif callee == "receive_frame" and recv == "self.session_manager" and caller_layer == "node":
                        kind = "node>sess"
                    elif callee == "receive_payload_from_session_manager" and recv == "self.software_manager" and caller_layer == "sess":
                        kind = "sess>swmgr"
                    elif callee == "receive" and caller_layer == "swmgr" and recv in ("nmap", "main_receiver", "receiver"):
                        kind = "swmgr>software"
                    else:
                        raise ValueError(f"{cname}.{fn.name} ({rel}): unclassified entry call `{ast.unparse(ch)[:70]}` "
                                         f"(caller layer {caller_layer})")
                    out.append((f"{cname}.{fn.name}@{rel.split('/')[-1]}", kind, recv, bool(under_enabled)))
                for sub in ast.iter_child_nodes(ch):
                    visit_stmt(sub, under_enabled)
            # `if not self.enabled: return False` as the first statement guards the rest of the function
            body = [x for x in fn.body if not _is_log(x)]
            first_guard = (bool(body) and isinstance(body[0], ast.If) and ast.unparse(body[0].test) == "not self.enabled"
                           and isinstance(body[0].body[-1], ast.Return))
            for st in fn.body:
                visit_stmt(st, first_guard)
    return out


# ------------------------------------------------------------------------------------------------ per-tick statements
def _loop_over(st: ast.stmt, coll: str, meth: str) -> bool:
    """`for x in self.<coll>[.values()]: <x or self.<coll>[x]>.<meth>(timestep…)` and nothing else"""
    if not isinstance(st, ast.For) or len(st.body) != 1 or st.orelse:
        return False
    it = ast.unparse(st.iter)
    if it not in (f"self.{coll}", f"self.{coll}.values()"):
        return False
    b = st.body[0]
    if not (isinstance(b, ast.Expr) and isinstance(b.value, ast.Call)):
        return False
    tgt = ast.unparse(st.target)
    f = ast.unparse(b.value.func)
    return f in (f"{tgt}.{meth}", f"self.{coll}[{tgt}].{meth}")


def _tick_token(st: ast.stmt, meth: str) -> Optional[str]:
    if isinstance(st, ast.Expr) and isinstance(st.value, ast.Call):
        f = ast.unparse(st.value.func)
        if f == f"super().{meth}":
            return "super"
        if f == f"self.file_system.{meth}":
            return "fs"
    for coll, tok in (("network_interfaces", "nics"), ("processes", "procs"), ("services", "svcs"), ("applications", "apps")):
        if _loop_over(st, coll, meth):
            return tok
    if isinstance(st, ast.If):
        t = _u(st.test)
        src = ast.unparse(st)
        software = any(w in src for w in ("self.services", "self.applications", "self.processes", "self.file_system",
                                          "node_scan_countdown", "red_scan_countdown"))
        # the two power countdown blocks, recognised by the countdown they touch (what they DO is translated and proved
        # equal to the model's tickUp / tickDown: C12_gen_tick_power_sem)
        if not software and "start_up_countdown" in src and "shut_down_countdown" not in src:
            return "upBlock"
        if not software and "shut_down_countdown" in src and "start_up_countdown" not in src:
            return "downBlock"
        if t == "node_scan_countdown > 0" and not st.orelse:
            return "nodeScan"
        if t == "red_scan_countdown > 0" and not st.orelse:
            return "redScan"
    return None


def guarded_statements(fn: ast.FunctionDef, meth: str) -> List[Tuple[str, str]]:
    """every top-level statement of Node.apply_timestep / Node.pre_timestep as (guard, token); a statement under
    `if self.operating_state == NodeOperatingState.ON:` (no else) is `whenOn`; any other shape raises"""
    out: List[Tuple[str, str]] = []
    for st in fn.body:
        if _is_log(st):
            continue
        tok = _tick_token(st, meth)
        if tok is not None:
            out.append(("always", tok))
            continue
        if isinstance(st, ast.If) and _u(st.test) == "operating_state == ON" and not st.orelse:
            for inner in st.body:
                if _is_log(inner):
                    continue
                tok = _tick_token(inner, meth)
                if tok is None or tok in ("upBlock", "downBlock"):
                    raise ValueError(f"Node.{meth}: unrecognised statement under the ON test: `{ast.unparse(inner)[:80]}`")
                out.append(("whenOn", tok))
            continue
        raise ValueError(f"Node.{meth}: unrecognised top-level statement `{ast.unparse(st)[:80]}`")
    return out


# ------------------------------------------------------------------------------------------------ loader / set-up shapes
def _calls_in(fn: ast.FunctionDef, pred) -> List[str]:
    out = []
    for n in ast.walk(fn):
        if isinstance(n, ast.Call) and pred(ast.unparse(n.func)):
            out.append(ast.unparse(n.func))
    return out


def flat(stmts: List[ast.stmt]) -> str:
    """statement list -> canonical text (log calls and docstrings dropped); nested blocks in brackets"""
    out = []
    for st in stmts:
        if _is_log(st):
            continue
        if isinstance(st, ast.If):
            s = f"if({ast.unparse(st.test)})[{flat(st.body)}]"
            if st.orelse:
                s += f"else[{flat(st.orelse)}]"
            out.append(s)
        elif isinstance(st, ast.For):
            out.append(f"for({ast.unparse(st.target)} in {ast.unparse(st.iter)})[{flat(st.body)}]")
        else:
            out.append(ast.unparse(st).replace("\n", " "))
    return ";".join(out)


POWER_WORDS = ("power_on", "power_off", "operating_state", "start_up_duration", "shut_down_duration", "start_up_countdown",
               "shut_down_countdown", "is_resetting", ".enable(", ".disable(", "enable_port", "disable_port", ".start(", ".run(",
               "setup_for_episode")


def power_lines(stmts: List[ast.stmt]) -> List[ast.stmt]:
    """the statements (at any depth, outermost kept whole) that mention a power word"""
    return [st for st in stmts if not _is_log(st) and any(w in ast.unparse(st) for w in POWER_WORDS)]


def loader_shapes() -> Dict[str, str]:
    base = parse(BASE)
    node = class_def(base, "Node")
    out: Dict[str, str] = {}
    out["Node.__init__"] = flat(power_lines(find_method(node, "__init__").body))
    # connect_nic: body = docstring, if/else; keep the power lines of the accepting branch
    cn = [s for s in find_method(node, "connect_nic").body if not _is_log(s)]
    if len(cn) != 1 or not isinstance(cn[0], ast.If):
        raise ValueError("Node.connect_nic: not a single if/else")
    out["Node.connect_nic"] = flat(power_lines(cn[0].body))
    out["Node.setup_for_episode"] = flat(find_method(node, "setup_for_episode").body)
    out["NetworkInterface.setup_for_episode"] = flat(power_lines(find_method(class_def(base, "NetworkInterface"), "setup_for_episode").body))
    out["WiredNetworkInterface.connect_link"] = flat(find_method(class_def(base, "WiredNetworkInterface"), "connect_link").body)
    out["WiredNetworkInterface.disconnect_link"] = flat(power_lines(find_method(class_def(base, "WiredNetworkInterface"), "disconnect_link").body))
    net = class_def(parse("simulator/network/container.py"), "Network")
    out["Network.setup_for_episode"] = flat(find_method(net, "setup_for_episode").body)
    router = class_def(parse(NODE_FILES["Router"]), "Router")
    out["Router.setup_for_episode"] = flat(find_method(router, "setup_for_episode").body)
    out["Router.enable_port"] = flat(find_method(router, "enable_port").body)
    # the game loader: power lines of the per-node loop of PrimaiteGame.from_config
    game = class_def(parse("game/game.py"), "PrimaiteGame")
    fc = find_method(game, "from_config")
    loops = [s for s in fc.body if isinstance(s, ast.For) and ast.unparse(s.iter) == "nodes_cfg"]
    if len(loops) != 1:
        raise ValueError("PrimaiteGame.from_config: the loop over nodes_cfg was not found")
    words = ("power_on", "power_off", "operating_state", "config.start_up_duration", "config.shut_down_duration", "net.add_node")
    lines = [st for st in loops[0].body if any(w in ast.unparse(st) for w in words)
             and not (isinstance(st, ast.If) and "defaults_config" in ast.unparse(st.test))]
    out["PrimaiteGame.from_config.node_loop"] = flat(lines)
    sm = class_def(parse("simulator/system/core/software_manager.py"), "SoftwareManager")
    out["SoftwareManager.install"] = flat([st for st in find_method(sm, "install").body
                                           if any(w in ast.unparse(st) for w in (".start(", ".run(", "operating_state", "software.install()"))])
    # constructors / loaders of the node classes: every power word they contain
    for cname, rel in NODE_FILES.items():
        if cname == "Node":
            continue
        c = class_def(parse(rel), cname)
        for m in ("__init__", "from_config"):
            fn = next((n for n in c.body if isinstance(n, ast.FunctionDef) and n.name == m), None)
            if fn is None:
                continue
            hits = []
            for n in ast.walk(fn):
                if isinstance(n, (ast.Assign, ast.Expr)) and not _is_log(n):
                    txt = ast.unparse(n).replace("\n", " ")
                    if any(w in txt for w in ("power_on", "power_off", ".operating_state =", ".enable()", ".disable()", "enable_port")):
                        hits.append(txt)
            out[f"{cname}.{m}"] = ";".join(hits)
    return out


def session_shapes() -> Dict[str, str]:
    """`UserSessionManager.pre_timestep` (the time-out sweep) and the head of `_login`, as canonical text, plus whether the
    sweep and `_timeout_session` mention the node's power or `_can_perform_action` at all"""
    usm = class_def(parse(BASE), "UserSessionManager")
    pre = find_method(usm, "pre_timestep")
    tmo = find_method(usm, "_timeout_session")
    login = find_method(usm, "_login")
    body = [x for x in login.body if not _is_log(x)]
    guarded = (bool(body) and isinstance(body[0], ast.If) and ast.unparse(body[0].test) == "not self._can_perform_action()"
               and isinstance(body[0].body[-1], ast.Return) and ast.unparse(body[0].body[-1].value) == "None")
    src = ast.unparse(pre) + ast.unparse(tmo)
    blind = not any(w in src for w in ("operating_state", "_can_perform_action", "NodeOperatingState"))
    limit = find_method(usm, "remote_session_limit_reached")
    return {"pre_timestep": flat(pre.body), "login_guarded": "true" if guarded else "false",
            "sweep_power_blind": "true" if blind else "false",
            "remote_limit": flat(limit.body)}


def power_call_sites() -> List[Tuple[str, str, int]]:
    """(file, enclosing function, number of calls) of every `<x>.power_on()` / `.power_off()` / node `.reset()` under src/primaite,
    the definitions in base.py excluded"""
    from harness.lib.core import SRC
    rows: Dict[Tuple[str, str], int] = {}
    for f in sorted(SRC.rglob("*.py")):
        rel = str(f.relative_to(SRC))
        tree = ast.parse(f.read_text())
        for fn in ast.walk(tree):
            if not isinstance(fn, (ast.FunctionDef, ast.AsyncFunctionDef)):
                continue
            for n in ast.walk(fn):
                if isinstance(n, ast.Call) and isinstance(n.func, ast.Attribute) and n.func.attr in ("power_on", "power_off"):
                    key = (rel, f"{fn.name}:{n.func.attr}")
                    rows[key] = rows.get(key, 0) + 1
    # nested functions are walked twice (once from the outer def): keep the innermost attribution only
    return sorted((rel, fn, k) for (rel, fn), k in rows.items())


def lean_str(s: str) -> str:
    return '"' + s.replace("\\", "\\\\").replace('"', '\\"') + '"'


def emit() -> str:
    base = parse(BASE)
    node = class_def(base, "Node")
    # --- enum
    st_tree = parse("simulator/network/hardware/node_operating_state.py")
    enum = class_def(st_tree, "NodeOperatingState")
    members = []
    for s in enum.body:
        if isinstance(s, ast.Assign) and isinstance(s.value, ast.Constant) and isinstance(s.value.value, int):
            members.append((ast.unparse(s.targets[0]), s.value.value))
    if [m for m, _ in members] != ["ON", "OFF", "BOOTING", "SHUTTING_DOWN"]:
        raise ValueError(f"NodeOperatingState members changed: {members}")
    # --- defaults
    schema = next(n for n in node.body if isinstance(n, ast.ClassDef) and n.name == "ConfigSchema")
    defaults = {}
    for s in schema.body:
        if isinstance(s, ast.AnnAssign) and isinstance(s.value, ast.Constant):
            defaults[ast.unparse(s.target)] = s.value.value
    need = ["start_up_duration", "start_up_countdown", "shut_down_duration", "shut_down_countdown", "is_resetting"]
    for k in need:
        if k not in defaults:
            raise ValueError(f"Node.ConfigSchema.{k} has no literal default")
    # --- the power methods themselves (power_on / power_off / reset / the countdown blocks of apply_timestep / the start-up and
    #     shut-down actions) are TRANSLATED, not spelt: harness/extract/power_prog.py -> Gen/PowerProg.lean, Props/C12Prog.lean.
    #     Here only: the software block of apply_timestep is the trailing `if operating_state == ON` (guarded_statements below
    #     classifies every top-level statement and raises on anything it does not know).
    # --- interfaces
    air = parse("simulator/network/airspace.py")
    entry = []
    for rel, cname, meths in [
        ("simulator/network/hardware/nodes/host/host_node.py", "NIC", ["receive_frame"]),
        (BASE, "WiredNetworkInterface", ["send_frame"]),
        ("simulator/network/hardware/nodes/network/router.py", "RouterInterface", ["receive_frame"]),
        ("simulator/network/hardware/nodes/network/switch.py", "SwitchPort", ["receive_frame", "send_frame"]),
        ("simulator/network/airspace.py", "WirelessNetworkInterface", ["receive_frame", "send_frame"]),
        ("simulator/network/hardware/nodes/network/wireless_router.py", "WirelessAccessPoint", ["receive_frame"]),
    ]:
        c = class_def(parse(rel), cname)
        for m in meths:
            entry.append((f"{cname}.{m}", entry_guarded(find_method(c, m))))
    # --- validators
    on_pred = validator_pred(next(n for n in node.body if isinstance(n, ast.ClassDef) and n.name == "_NodeIsOnValidator"))
    off_pred = validator_pred(next(n for n in node.body if isinstance(n, ast.ClassDef) and n.name == "_NodeIsOffValidator"))
    tables = class_tables()
    # --- software guards
    sw = parse("simulator/system/software.py")
    iosw = class_def(sw, "IOSoftware")
    cpa = find_method(iosw, "_can_perform_action")
    cpa_body = [s for s in cpa.body if not _is_log(s)]
    cpa_ok = (len(cpa_body) == 2 and isinstance(cpa_body[0], ast.If)
              and ast.unparse(cpa_body[0].test) == "self.software_manager and self.software_manager.node.operating_state != NodeOperatingState.ON"
              and isinstance(cpa_body[0].body[-1], ast.Return) and ast.unparse(cpa_body[0].body[-1].value) == "False"
              and isinstance(cpa_body[1], ast.Return) and ast.unparse(cpa_body[1].value) == "True")
    svc = class_def(parse("simulator/system/services/service.py"), "Service")
    app = class_def(parse("simulator/system/applications/application.py"), "Application")
    start_ok = _starts_with_node_guard(find_method(svc, "start"), "super()._can_perform_action()", "False")
    run_ok = _starts_with_node_guard(find_method(app, "run"), "super()._can_perform_action()", None)
    send_ok = _starts_with_node_guard(find_method(iosw, "send"), "self._can_perform_action()", "False")
    recv = [s for s in find_method(iosw, "receive").body if not _is_log(s)]
    recv_ok = len(recv) == 1 and isinstance(recv[0], ast.Return) and ast.unparse(recv[0].value) == "self._can_perform_action()"

    def b(x: bool) -> str:
        return "true" if x else "false"

    def table_lean(rs: List[Tuple[str, str]]) -> str:
        return "[" + ", ".join(f"⟨{lean_str(k)}, {g}⟩" for k, g in rs) + "]"
    lines = ["import PrimaiteModel.Model.Power", "namespace Primaite.Gen.Power", "open Primaite.Power", ""]
    lines.append("/-- `NodeOperatingState` members and values, in source order -/")
    lines.append("def stateValues : List (String × Nat) := [" + ", ".join(f"({lean_str(m)}, {v})" for m, v in members) + "]")
    lines.append(f"def defaultUpDur : Int := {int(defaults['start_up_duration'])}")
    lines.append(f"def defaultDownDur : Int := {int(defaults['shut_down_duration'])}")
    lines.append(f"def defaultUpCd : Int := {int(defaults['start_up_countdown'])}")
    lines.append(f"def defaultDownCd : Int := {int(defaults['shut_down_countdown'])}")
    lines.append(f"def defaultResetting : Bool := {b(bool(defaults['is_resetting']))}")
    lines.append("/-- does the method start with the `enabled` test (and answer False otherwise)? -/")
    lines.append("def nicEntryGuarded : List (String × Bool) := [" + ", ".join(f"({lean_str(n)}, {b(v)})" for n, v in entry) + "]")
    lines.append("/-- the two node validators as predicates over the node's power state (translated, not spelt) -/")
    lines.append(f"def nodeIsOnPred : PState → Bool := fun s => {validator_lean(node, '_NodeIsOnValidator')}")
    lines.append(f"def nodeIsOffPred : PState → Bool := fun s => {validator_lean(node, '_NodeIsOffValidator')}")
    lines.append(f"def nodeIsOnPredicate : String := {lean_str(on_pred)}")
    lines.append(f"def nodeIsOffPredicate : String := {lean_str(off_pred)}")
    lines.append("/-- every route registered AFTER construction (site, manager, node-level key the manager hangs under, that edge's validator) -/")
    lines.append("def runtimeRouteSites : List (String × String × String × Guard) := [" + ", ".join(
        f"({lean_str(a)}, {lean_str(b)}, {lean_str(c)}, {d})" for a, b, c, d in runtime_route_sites()) + "]")
    lines.append("/-- node-level request routes (key, validator) per concrete node class, subclass additions applied -/")
    lines.append("def classTables : List (String × List Route) := [")
    lines.append(",\n".join(f"  ({lean_str(d)}, {table_lean(rs)})" for d, rs in tables))
    lines.append("]")
    lines.append("/-- Node and every class below it, wherever defined: (class, discriminator, instantiable) -/")
    lines.append("def nodeClasses : List (String × String × Bool) := [" +
                 ", ".join(f"({lean_str(n)}, {lean_str(d)}, {b(i)})" for n, d, i, _ in node_inventory()) + "]")
    lines.append("/-- NetworkInterface and every class below it: (class, file, instantiable) -/")
    lines.append("def nicClasses : List (String × String × Bool) := [" +
                 ", ".join(f"({lean_str(n)}, {lean_str(rel)}, {b(i)})" for n, rel, i in nic_inventory()) + "]")
    lines.append("/-- every definition of enable() / disable() at or below NetworkInterface, with its shape -/")
    lines.append("def nicEnableDefs : List (String × String × String) := [" +
                 ", ".join(f"({lean_str(a)}, {lean_str(b_)}, {lean_str(c_)})" for a, b_, c_ in nic_enable_defs()) + "]")
    lines.append("/-- every call that hands a frame / payload one layer up (wire > interface > node > session manager > software")
    lines.append("manager > software): (caller, kind, receiver, under the caller's `if self.enabled`) -/")
    lines.append("def frameEntrySites : List (String × String × String × Bool) := [")
    lines.append(",\n".join(f"  ({lean_str(a)}, {lean_str(k)}, {lean_str(r)}, {b(g)})" for a, k, r, g in frame_entry_sites()))
    lines.append("]")
    lines.append("/-- every top-level statement of `Node.apply_timestep` with the power test it sits under -/")
    lines.append("def tickStmts : List (StmtGuard × TickStmt) := [" +
                 ", ".join(f"(.{g}, .{t})" for g, t in guarded_statements(find_method(node, "apply_timestep"), "apply_timestep")) + "]")
    lines.append("/-- every top-level statement of `Node.pre_timestep` with the power test it sits under -/")
    lines.append("def preStmts : List (StmtGuard × PreStmt) := [" +
                 ", ".join(f"(.{g}, .{t})" for g, t in guarded_statements(find_method(node, "pre_timestep"), "pre_timestep")) + "]")
    lines.append("/-- the power-relevant statements of the constructors, the loader and episode set-up -/")
    lines.append("def loaderShapes : List (String × String) := [")
    lines.append(",\n".join(f"  ({lean_str(k)}, {lean_str(v)})" for k, v in loader_shapes().items()))
    lines.append("]")
    lines.append("/-- `UserSessionManager`: the time-out sweep of pre_timestep, whether it consults power, the guard of `_login` -/")
    lines.append("def sessionShapes : List (String × String) := [" +
                 ", ".join(f"({lean_str(k)}, {lean_str(v)})" for k, v in session_shapes().items()) + "]")
    lines.append("/-- every call of power_on / power_off under src/primaite: (file, function:method, count) -/")
    lines.append("def powerCallSites : List (String × String × Nat) := [" +
                 ", ".join(f"({lean_str(f)}, {lean_str(fn)}, {k})" for f, fn, k in power_call_sites()) + "]")
    lines.append(f"def canPerformActionTestsNodeOn : Bool := {b(cpa_ok)}")
    lines.append(f"def serviceStartGuarded : Bool := {b(start_ok)}")
    lines.append(f"def applicationRunGuarded : Bool := {b(run_ok)}")
    lines.append(f"def softwareSendGuarded : Bool := {b(send_ok)}")
    lines.append(f"def softwareReceiveGuarded : Bool := {b(recv_ok)}")
    lines.append("end Primaite.Gen.Power")
    return "\n".join(lines) + "\n"


if __name__ == "__main__":
    print(emit())
