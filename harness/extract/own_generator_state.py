"""C04 / C03 (F-11 repair): the decorator `own_generator_state` of session/environment.py and where it is applied. Pure ast.

The repair of F-11 makes every environment run `__init__` / `reset` / `step` on its OWN saved state of the two process-wide generators:
the wrapper puts the state the environment's last operation left back in place (when there is one), runs the operation, and records the
state afterwards in a `finally`. What the theorems of Props/C04 (`ownIn` / `ownOut` of the skeleton) and Props/C03 (`ownedOpStep`) assume
about that code is regenerated here, SEMANTICALLY (statement roles, not source text):

  * `stateKey`            the key of `self.__dict__` under which the state is kept; read in the FIRST statement of the wrapper
  * `restoreGuard`        the test in front of the restoring calls (`isNotNone`: `if own is not None:`; truthiness is accepted as the same
                          thing: the stored value is a non-empty tuple)
  * `restoreCalls`        (call, argument) of the statements under that test, in order
  * `operationCalls`      every call of the wrapped operation inside the wrapper, with its arguments; `operationAfterRestore`: all of them
                          come after the restoring `if`; `operationInTry`: inside the `try` whose `finally` saves
  * `savedUnder`          the key the `finally` stores to; `savedValue` the calls whose results are stored, in order
  * `drawsInWrapper`      calls of the wrapper on `random` / `np.random` that are none of getstate / setstate / get_state / set_state
  * `otherStatements`     statements of the wrapper with none of these roles (must be empty)
  * `decorated`           (class, method, decorators) for EVERY method of the three environment classes
  * `nestedOwned`         (class, method, callee): a decorated method that calls `self.<decorated method>` (a nested wrapper would put the
                          state of the END OF THE LAST operation back in the middle of the running one: draws would be replayed)
  * `stateKeyMentions`    every other place of the package that mentions the key (must be none: only the wrapper touches it)
Strict: a wrapper statement whose role cannot be decided raises."""
import ast
from typing import List, Tuple

from harness.extract.util import class_def, find_function, parse
from harness.lib.core import SRC

GEN_NAME = "OwnGeneratorState"

ENV = "session/environment.py"
RAY = "session/ray_envs.py"
DECORATOR = "own_generator_state"
STATE_CALLS = {"getstate", "setstate", "get_state", "set_state"}


def _q(s: str) -> str:
    return '"' + s.replace("\\", "\\\\").replace('"', "'") + '"'


def _l(xs) -> str:
    return "[" + ", ".join(xs) + "]"


def _dict_key(e: ast.AST, param: str):
    """`self.__dict__.get(K)` / `self.__dict__[K]` / `getattr(self, K, None)` / `self.K` -> K"""
    if isinstance(e, ast.Call) and isinstance(e.func, ast.Attribute) and e.func.attr == "get" and ast.unparse(e.func.value) == f"{param}.__dict__" \
            and e.args and isinstance(e.args[0], ast.Constant) and isinstance(e.args[0].value, str) \
            and (len(e.args) == 1 or (isinstance(e.args[1], ast.Constant) and e.args[1].value is None)):
        return e.args[0].value
    if isinstance(e, ast.Call) and isinstance(e.func, ast.Name) and e.func.id == "getattr" and len(e.args) == 3 and ast.unparse(e.args[0]) == param \
            and isinstance(e.args[1], ast.Constant) and isinstance(e.args[2], ast.Constant) and e.args[2].value is None:
        return e.args[1].value
    return None


def _store_key(t: ast.AST, param: str):
    if isinstance(t, ast.Subscript) and ast.unparse(t.value) == f"{param}.__dict__" and isinstance(t.slice, ast.Constant):
        return t.slice.value
    if isinstance(t, ast.Attribute) and ast.unparse(t.value) == param:
        return t.attr
    return None


def _gen_call(c: ast.Call) -> str:
    """`random.x(...)` / `np.random.x(...)` / `numpy.random.x(...)` -> canonical dotted name, else ''"""
    f = ast.unparse(c.func)
    for pre, canon in (("np.random.", "numpy.random."), ("numpy.random.", "numpy.random."), ("random.", "random.")):
        if f.startswith(pre) and "." not in f[len(pre):]:
            return canon + f[len(pre):]
    return ""


def wrapper_shape() -> dict:
    tree = parse(ENV)
    deco = find_function(tree, DECORATOR)
    if len(deco.args.args) != 1:
        raise ValueError("own_generator_state: one parameter (the operation) expected")
    op = deco.args.args[0].arg
    inner = [n for n in deco.body if isinstance(n, ast.FunctionDef)]
    if len(inner) != 1:
        raise ValueError("own_generator_state: exactly one nested function expected")
    w = inner[0]
    rets = [n for n in deco.body if isinstance(n, ast.Return)]
    if len(rets) != 1 or ast.unparse(rets[0].value) != w.name:
        raise ValueError("own_generator_state: must return the nested wrapper")
    if not w.args.args:
        raise ValueError("wrapper: no self parameter")
    me = w.args.args[0].arg
    out = {"stateKey": "", "ownFirst": False, "restoreGuard": "none", "restoreCalls": [], "operationCalls": [], "operationAfterRestore": True,
           "operationInTry": True, "savedUnder": "", "savedValue": [], "other": [], "draws": []}
    own_var = None
    restored = False
    body = [s for s in w.body if not (isinstance(s, ast.Expr) and isinstance(s.value, ast.Constant))]   # docstring
    for idx, s in enumerate(body):
        if isinstance(s, ast.Assign) and len(s.targets) == 1 and isinstance(s.targets[0], ast.Name) and _dict_key(s.value, me) is not None \
                and own_var is None:
            own_var = s.targets[0].id
            out["stateKey"] = _dict_key(s.value, me)
            out["ownFirst"] = idx == 0
        elif isinstance(s, ast.If) and own_var is not None and not s.orelse and not restored:
            t = s.test
            if isinstance(t, ast.Compare) and isinstance(t.left, ast.Name) and t.left.id == own_var and len(t.ops) == 1 \
                    and isinstance(t.ops[0], ast.IsNot) and isinstance(t.comparators[0], ast.Constant) and t.comparators[0].value is None:
                out["restoreGuard"] = "isNotNone"
            elif isinstance(t, ast.Name) and t.id == own_var:
                out["restoreGuard"] = "isNotNone"     # a non-empty tuple or None: truthiness is the same test
            else:
                out["restoreGuard"] = "other:" + ast.unparse(t)
            for b in s.body:
                if isinstance(b, ast.Expr) and isinstance(b.value, ast.Call) and _gen_call(b.value) and len(b.value.args) == 1 and not b.value.keywords:
                    out["restoreCalls"].append((_gen_call(b.value), ast.unparse(b.value.args[0]).replace(own_var, "own")))
                else:
                    raise ValueError(f"wrapper: unrecognised statement under the restoring test: {ast.unparse(b)}")
            restored = True
        elif isinstance(s, ast.Try) and not s.handlers and not s.orelse:
            for b in s.body:
                calls = [c for c in ast.walk(b) if isinstance(c, ast.Call) and isinstance(c.func, ast.Name) and c.func.id == op]
                if not calls or not isinstance(b, (ast.Return, ast.Expr, ast.Assign)):
                    raise ValueError(f"wrapper: unrecognised statement in try: {ast.unparse(b)}")
                for c in calls:
                    out["operationCalls"].append(ast.unparse(c))
                    if not restored:
                        out["operationAfterRestore"] = False
            for b in s.finalbody:
                if isinstance(b, ast.Assign) and len(b.targets) == 1 and _store_key(b.targets[0], me) is not None and not out["savedUnder"]:
                    out["savedUnder"] = _store_key(b.targets[0], me)
                    v = b.value
                    for e in (v.elts if isinstance(v, ast.Tuple) else [v]):
                        if isinstance(e, ast.Call) and _gen_call(e) and not e.args and not e.keywords:
                            out["savedValue"].append(_gen_call(e))
                        else:
                            raise ValueError(f"wrapper: unrecognised saved value: {ast.unparse(e)}")
                else:
                    raise ValueError(f"wrapper: unrecognised statement in finally: {ast.unparse(b)}")
        else:
            out["other"].append(ast.unparse(s)[:80])
    # a call of the operation outside the try
    n_calls = sum(1 for c in ast.walk(w) if isinstance(c, ast.Call) and isinstance(c.func, ast.Name) and c.func.id == op)
    if n_calls != len(out["operationCalls"]):
        out["operationInTry"] = False
    for c in ast.walk(w):
        if isinstance(c, ast.Call) and _gen_call(c) and _gen_call(c).split(".")[-1] not in STATE_CALLS:
            out["draws"].append(_gen_call(c))
    return out


def decorated_methods() -> List[Tuple[str, str, List[str]]]:
    out = []
    for rel, classes in ((ENV, ["PrimaiteGymEnv"]), (RAY, ["PrimaiteRayMARLEnv", "PrimaiteRayEnv"])):
        tree = parse(rel)
        for cn in classes:
            for m in class_def(tree, cn).body:
                if isinstance(m, ast.FunctionDef):
                    out.append((cn, m.name, [ast.unparse(d) for d in m.decorator_list if ast.unparse(d) != "property"]))
    return out


def nested_owned(dec: List[Tuple[str, str, List[str]]]) -> List[Tuple[str, str, str]]:
    out = []
    for rel, classes in ((ENV, ["PrimaiteGymEnv"]), (RAY, ["PrimaiteRayMARLEnv", "PrimaiteRayEnv"])):
        tree = parse(rel)
        for cn in classes:
            owned = {m for (c, m, ds) in dec if c == cn and DECORATOR in ds}
            for m in class_def(tree, cn).body:
                if isinstance(m, ast.FunctionDef) and m.name in owned:
                    for c in ast.walk(m):
                        if isinstance(c, ast.Call) and isinstance(c.func, ast.Attribute) and isinstance(c.func.value, ast.Name) \
                                and c.func.value.id == "self" and c.func.attr in owned:
                            out.append((cn, m.name, c.func.attr))
    return out


def key_mentions(key: str) -> List[str]:
    out = []
    if not key:
        return out
    for p in sorted(SRC.rglob("*.py")):
        rel = p.relative_to(SRC).as_posix()
        try:
            tree = ast.parse(p.read_text())
        except SyntaxError:
            continue
        deco = None
        if rel == ENV:
            deco = find_function(tree, DECORATOR)
        inside = {id(n) for n in ast.walk(deco)} if deco is not None else set()
        for n in ast.walk(tree):
            if id(n) in inside:
                continue
            if (isinstance(n, ast.Constant) and n.value == key) or (isinstance(n, ast.Attribute) and n.attr == key):
                out.append(f"{rel}:{n.lineno}")
    return out


def emit() -> str:
    w = wrapper_shape()
    dec = decorated_methods()
    L = ["namespace Primaite.Gen.OwnGeneratorState", "",
         f"def stateKey : String := {_q(w['stateKey'])}",
         f"def ownReadFirst : Bool := {'true' if w['ownFirst'] else 'false'}",
         f"def restoreGuard : String := {_q(w['restoreGuard'])}",
         "def restoreCalls : List (String × String) := " + _l(f"({_q(a)}, {_q(b)})" for a, b in w["restoreCalls"]),
         "def operationCalls : List String := " + _l(_q(x) for x in w["operationCalls"]),
         f"def operationAfterRestore : Bool := {'true' if w['operationAfterRestore'] else 'false'}",
         f"def operationInTry : Bool := {'true' if w['operationInTry'] else 'false'}",
         f"def savedUnder : String := {_q(w['savedUnder'])}",
         "def savedValue : List String := " + _l(_q(x) for x in w["savedValue"]),
         "def drawsInWrapper : List String := " + _l(_q(x) for x in w["draws"]),
         "def otherStatements : List String := " + _l(_q(x) for x in w["other"]),
         "def decorated : List (String × String × List String) := [",
         ",\n".join(f"  ({_q(c)}, {_q(m)}, {_l(_q(d) for d in ds)})" for c, m, ds in dec) + "]",
         "def nestedOwned : List (String × String × String) := " + _l(f"({_q(a)}, {_q(b)}, {_q(c)})" for a, b, c in nested_owned(dec)),
         "def stateKeyMentions : List String := " + _l(_q(x) for x in key_mentions(w["stateKey"])),
         "", "end Primaite.Gen.OwnGeneratorState", ""]
    return "\n".join(L)


if __name__ == "__main__":
    print(emit())
