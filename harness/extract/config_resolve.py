"""C20 — attributes that are configured from MORE THAN ONE source (the entry's own key, the `defaults:` section, what the
constructor left): the loader statements that decide the value are TRANSLATED (symbolic execution of the slice of
`PrimaiteGame.from_config` that writes the attribute) into a Lean function over `own dflt : Option PV` (`none` = key absent),
`init` (the attribute before the loader touched it) and `other` (any other key the slice reads).  Props/C20Resolve.lean proves
each equal to `effective …` (own value if declared - for EVERY value, 0 / '' / False included - else the default, else init).

The same symbolic expression is evaluated in Python (`evaluate`) so that, when a theorem stops checking, the rig finds the grid
point where translation and specification differ (the counter-model) and builds the scenario file from it.

(2) `truthiness_sites()`: every place in the loader functions where a VALUE is tested for truthiness (`a or b`, `x if c else y`,
`if v:`, `not v`) - the places where a falsy-but-legal value of the file can take the wrong branch.

Pure `ast`; strict: an unrecognised shape in a statement that matters raises."""
import ast
from typing import Any, Dict, List, Optional, Tuple

from harness.extract.config_sites import LOADER_FUNCTIONS
from harness.extract.util import class_def, find_method, parse

GEN_NAME = "ConfigResolve"

OPTIONS_FORMS = ["service_cfg.get('options', {})", "service_cfg['options']"]
SITES = [
    dict(name="svcFixingDuration", target="new_service.config.fixing_duration", own_forms=OPTIONS_FORMS, own_key="fixing_duration",
         dflt_key="service_fix_duration"),
    dict(name="nodeStartUp", target="new_node.config.start_up_duration", own_forms=["node_cfg"], own_key="start_up_duration",
         dflt_key="node_start_up_duration"),
    dict(name="nodeShutDown", target="new_node.config.shut_down_duration", own_forms=["node_cfg"], own_key="shut_down_duration",
         dflt_key="node_shut_down_duration"),
    dict(name="nodeScan", target="new_node.config.node_scan_duration", own_forms=["node_cfg"], own_key="node_scan_duration",
         dflt_key="node_scan_duration"),
    dict(name="svcRestart", target="new_service.restart_duration", own_forms=OPTIONS_FORMS, own_key=None,
         dflt_key="service_restart_duration"),
    dict(name="linkBandwidth", target="bandwidth", own_forms=["link_cfg"], own_key="bandwidth", dflt_key=None),
]
DEFAULTS_NAME = "defaults_config"


class Unsupported(Exception):
    pass


def _u(n: ast.AST) -> str:
    return ast.unparse(n).replace('"', "'")


def _module_int_constants() -> Dict[str, int]:
    out = {}
    for st in parse("__init__.py").body:
        if isinstance(st, ast.AnnAssign) and isinstance(st.target, ast.Name) and isinstance(st.value, ast.Constant) \
                and isinstance(st.value.value, int) and not isinstance(st.value.value, bool):
            out[st.target.id] = st.value.value
    return out


class _Slice:
    def __init__(self, site: Dict, consts: Dict[str, int]):
        self.site = site
        self.consts = consts
        self.alias = set(site["own_forms"])
        self.vars: Dict[str, Any] = {}
        self.guards: List[str] = []      # structural guards / loops around a write of the target
        self.writes = 0

    # ---- which mapping does an expression denote
    def _src(self, e: ast.AST) -> Optional[str]:
        s = _u(e)
        if s == DEFAULTS_NAME:
            return "dflt"
        if s in self.alias:
            return "own"
        return None

    def _key(self, src: str, k: ast.AST) -> Tuple[str, str]:
        if not (isinstance(k, ast.Constant) and isinstance(k.value, str)):
            raise Unsupported("non-literal key " + _u(k))
        want = self.site["own_key"] if src == "own" else self.site["dflt_key"]
        return (src, "") if k.value == want else ("other:" + src, k.value)

    def _read(self, kind: str, src: str, k: ast.AST, *rest):
        s, key = self._key(src, k)
        return (kind, s, key, *rest)

    # ---- relevance
    def relevant(self, e: ast.AST) -> bool:
        for n in ast.walk(e):
            if isinstance(n, (ast.Name, ast.Attribute)) and _u(n) in self.vars:
                return True
            if isinstance(n, (ast.Name, ast.Attribute)) and _u(n) == self.site["target"]:
                return True
            src = self._src(n) if isinstance(n, (ast.Name, ast.Attribute, ast.Call, ast.Subscript)) else None
            if src:
                want = self.site["own_key"] if src == "own" else self.site["dflt_key"]
                if want is not None and any(isinstance(c, ast.Constant) and c.value == want for c in ast.walk(e)):
                    return True
        return False

    # ---- expressions
    def tr(self, e: ast.AST):
        s = _u(e)
        if isinstance(e, ast.Constant):
            v = e.value
            if v is None:
                return ("lit", ("none",))
            if isinstance(v, bool):
                return ("lit", ("bool", v))
            if isinstance(v, int):
                return ("lit", ("int", v))
            if isinstance(v, str):
                return ("lit", ("str", v))
            if isinstance(v, float) and v == 0.0:
                return ("lit", ("float0",))
            raise Unsupported("constant " + s)
        if s == self.site["target"]:
            return self.vars.get(s, ("init",))
        if isinstance(e, (ast.Name, ast.Attribute)):
            if s in self.vars:
                return self.vars[s]
            if s in self.consts:
                return ("lit", ("int", self.consts[s]))
            raise Unsupported("free name " + s)
        if isinstance(e, ast.Call) and isinstance(e.func, ast.Name) and e.func.id == "int" and len(e.args) == 1 and not e.keywords:
            return ("int", self.tr(e.args[0]))
        if isinstance(e, ast.Call) and isinstance(e.func, ast.Attribute) and e.func.attr == "get" and not e.keywords and self._src(e.func.value):
            src = self._src(e.func.value)
            if len(e.args) == 1:
                return self._read("get", src, e.args[0])
            if len(e.args) == 2:
                return self._read("getD", src, e.args[0], self.tr(e.args[1]))
        if isinstance(e, ast.Subscript) and self._src(e.value):
            return self._read("sub", self._src(e.value), e.slice)
        if isinstance(e, ast.Compare) and len(e.ops) == 1:
            op, rhs = e.ops[0], e.comparators[0]
            if isinstance(op, (ast.In, ast.NotIn)) and self._src(rhs):
                return self._read("has" if isinstance(op, ast.In) else "hasNot", self._src(rhs), e.left)
            if isinstance(op, (ast.Is, ast.IsNot)) and isinstance(rhs, ast.Constant) and rhs.value is None:
                return ("isNone" if isinstance(op, ast.Is) else "isNotNone", self.tr(e.left))
        if isinstance(e, ast.BoolOp):
            parts = [self.tr(v) for v in e.values]
            acc = parts[-1]
            for p in reversed(parts[:-1]):
                acc = ("or" if isinstance(e.op, ast.Or) else "and", p, acc)
            return acc
        if isinstance(e, ast.UnaryOp) and isinstance(e.op, ast.Not):
            return ("not", self.tr(e.operand))
        if isinstance(e, ast.IfExp):
            return ("cond", self.tr(e.test), self.tr(e.body), self.tr(e.orelse))
        raise Unsupported(s[:100])

    # ---- statements
    def walk(self, stmts: List[ast.stmt], under: Tuple[str, ...]):
        for s in stmts:
            if isinstance(s, (ast.FunctionDef, ast.AsyncFunctionDef, ast.ClassDef)):
                continue
            if isinstance(s, ast.Assign) and len(s.targets) == 1 or isinstance(s, ast.AnnAssign) and s.value is not None:
                tgt = _u(s.targets[0] if isinstance(s, ast.Assign) else s.target)
                val = s.value
                if isinstance(s, ast.Assign) and isinstance(s.targets[0], ast.Name) and _u(val) in self.alias:
                    self.alias.add(tgt)
                    continue
                is_target = tgt == self.site["target"]
                if is_target or self.relevant(val):
                    if is_target:
                        self.writes += 1
                        for g in under:
                            if g not in self.guards:
                                self.guards.append(g)
                    try:
                        self.vars[tgt] = self.tr(val)
                    except Unsupported as u:
                        if is_target:
                            raise Unsupported(f"{self.site['name']}: write of the target not translatable: {_u(s)[:120]} ({u})")
                        self.vars[tgt] = ("untranslatable", _u(val)[:80])
                elif tgt in self.vars:
                    self.vars[tgt] = ("untranslatable", _u(val)[:80])
                continue
            if isinstance(s, ast.AugAssign) and _u(s.target) == self.site["target"]:
                raise Unsupported(f"{self.site['name']}: augmented assignment to the target")
            if isinstance(s, ast.If):
                if self.relevant(s.test):
                    c = self.tr(s.test)
                    before = dict(self.vars)
                    self.walk(s.body, under)
                    then_vars = self.vars
                    self.vars = dict(before)
                    self.walk(s.orelse, under)
                    else_vars = self.vars
                    merged = dict(before)
                    for v in sorted(set(then_vars) | set(else_vars)):
                        dflt = before.get(v, ("init",) if v == self.site["target"] else ("unbound",))
                        a, b = then_vars.get(v, dflt), else_vars.get(v, dflt)
                        merged[v] = a if a == b else ("cond", c, a, b)
                    self.vars = merged
                else:
                    g = "if " + _u(s.test)
                    self.walk(s.body, under + (g,))
                    self.walk(s.orelse, under + ("else of " + g,))
                continue
            if isinstance(s, (ast.For, ast.While)):
                g = ("for " + _u(s.target) + " in " + _u(s.iter)) if isinstance(s, ast.For) else ("while " + _u(s.test))
                self.walk(s.body, under + (g,))
                self.walk(s.orelse, under)
                continue
            if isinstance(s, ast.With):
                self.walk(s.body, under)
                continue
            if isinstance(s, ast.Try):
                self.walk(s.body, under + ("try",))
                for h in s.handlers:
                    self.walk(h.body, under + ("except",))
                self.walk(s.orelse, under)
                self.walk(s.finalbody, under)
                continue
            # any other statement form that stores to the target (del, walrus inside an expression statement, setattr) is refused
            for n in ast.walk(s):
                if isinstance(n, ast.Call) and isinstance(n.func, ast.Name) and n.func.id == "setattr":
                    raise Unsupported(f"{self.site['name']}: setattr in the loader")


def _check(e, name):
    if isinstance(e, tuple):
        if e and e[0] == "untranslatable":
            raise Unsupported(f"{name}: the value depends on an expression outside the translated language: {e[1]}")
        for x in e:
            _check(x, name)


def slices() -> Dict[str, Dict]:
    """site name -> {'expr': symbolic value of the target when from_config is through, 'guards': [...], 'writes': n}"""
    fc = find_method(class_def(parse("game/game.py"), "PrimaiteGame"), "from_config")
    consts = _module_int_constants()
    out = {}
    for site in SITES:
        sl = _Slice(site, consts)
        sl.walk(fc.body, ())
        e = sl.vars.get(site["target"], ("init",))
        _check(e, site["name"])
        if sl.writes == 0:
            raise Unsupported(f"{site['name']}: no statement of from_config writes {site['target']}")
        out[site["name"]] = {"expr": e, "guards": sl.guards, "writes": sl.writes, "site": site}
    return out


# ------------------------------------------------------------------------------------------------ keyword arguments of the other loaders
# `Router` / `Firewall` / `WirelessRouter.from_config` (and the calls inside `PrimaiteGame.from_config`) do not assign attributes: they
# hand values read from ONE mapping of the file (`r_cfg`, `port_cfg`, `route`, `nic_cfg` ...) to a call as keyword arguments
# (`add_rule(src_ip_address=r_cfg.get('src_ip', r_cfg.get('src_ip_address')), ...)`). Every such keyword expression is translated
# with the same language; the first key the expression reads is `own`, a second key of the same mapping (an alternative spelling) is
# `dflt`; a lookup table / constructor applied to the value (`PORT_LOOKUP[p]`, `IPv4Address(..)`, `float(..)`) is an opaque
# function `fn "<name>"` the theorems quantify over.
KWARG_FUNCTIONS = [
    ("simulator/network/hardware/nodes/network/router.py", "Router", "from_config"),
    ("simulator/network/hardware/nodes/network/firewall.py", "Firewall", "from_config"),
    ("simulator/network/hardware/nodes/network/wireless_router.py", "WirelessRouter", "from_config"),
    ("game/game.py", "PrimaiteGame", "from_config"),
]


class _KwTr:
    def __init__(self):
        self.mapping: Optional[str] = None
        self.keys: List[str] = []
        self.binds: Dict[str, Any] = {}
        self.opaque = False          # reads something that is not a literal key of a plain name

    def _read(self, kind: str, m: ast.AST, k: ast.AST, *rest):
        if not (isinstance(m, ast.Name) and isinstance(k, ast.Constant) and isinstance(k.value, str)):
            raise Unsupported("read " + _u(m) + " / " + _u(k))
        if self.mapping not in (None, m.id):
            raise Unsupported("two mappings in one argument: " + self.mapping + ", " + m.id)
        self.mapping = m.id
        if k.value not in self.keys:
            self.keys.append(k.value)
        i = self.keys.index(k.value)
        if i > 1:
            raise Unsupported("more than two keys of one mapping in one argument")
        return (kind, "own" if i == 0 else "dflt", "", *rest)

    def tr(self, e: ast.AST):
        if isinstance(e, ast.Constant):
            v = e.value
            if v is None:
                return ("lit", ("none",))
            if isinstance(v, bool):
                return ("lit", ("bool", v))
            if isinstance(v, int):
                return ("lit", ("int", v))
            if isinstance(v, str):
                return ("lit", ("str", v))
            if isinstance(v, float) and v == 0.0:
                return ("lit", ("float0",))
            raise Unsupported("constant " + _u(e))
        if isinstance(e, ast.NamedExpr) and isinstance(e.target, ast.Name):
            self.binds[e.target.id] = self.tr(e.value)
            return self.binds[e.target.id]
        if isinstance(e, ast.Name):
            if e.id in self.binds:
                return self.binds[e.id]
            raise Unsupported("free name " + e.id)
        if isinstance(e, ast.Call) and isinstance(e.func, ast.Attribute) and e.func.attr == "get" and not e.keywords \
                and isinstance(e.func.value, ast.Name) and len(e.args) in (1, 2):
            if len(e.args) == 1:
                return self._read("get", e.func.value, e.args[0])
            r = self._read("getD", e.func.value, e.args[0])     # key order = reading order of the source text: outer key first
            return (*r, self.tr(e.args[1]))
        if isinstance(e, ast.Subscript) and isinstance(e.value, ast.Name) and e.value.id.isupper():
            return ("app", e.value.id + "[]", self.tr(e.slice))
        if isinstance(e, ast.Subscript) and isinstance(e.value, ast.Name) and e.value.id[:1].isupper() and not isinstance(e.slice, ast.Constant):
            return ("app", e.value.id + "[]", self.tr(e.slice))       # an enum looked up by name: ACLAction[...]
        if isinstance(e, ast.Subscript) and isinstance(e.value, ast.Name):
            return self._read("sub", e.value, e.slice)
        if isinstance(e, ast.Call) and isinstance(e.func, ast.Name) and len(e.args) == 1 and not e.keywords:
            a = self.tr(e.args[0])
            return ("int", a) if e.func.id == "int" else ("app", e.func.id, a)
        if isinstance(e, ast.Compare) and len(e.ops) == 1:
            op, rhs = e.ops[0], e.comparators[0]
            if isinstance(op, (ast.In, ast.NotIn)) and isinstance(rhs, ast.Name):
                return self._read("has" if isinstance(op, ast.In) else "hasNot", rhs, e.left)
            if isinstance(op, (ast.Is, ast.IsNot)) and isinstance(rhs, ast.Constant) and rhs.value is None:
                return ("isNone" if isinstance(op, ast.Is) else "isNotNone", self.tr(e.left))
        if isinstance(e, ast.BoolOp):
            parts = [self.tr(v) for v in e.values]
            acc = parts[-1]
            for p in reversed(parts[:-1]):
                acc = ("or" if isinstance(e.op, ast.Or) else "and", p, acc)
            return acc
        if isinstance(e, ast.UnaryOp) and isinstance(e.op, ast.Not):
            return ("not", self.tr(e.operand))
        if isinstance(e, ast.IfExp):
            c = self.tr(e.test)          # Python evaluates the test first (a walrus in it binds before the branches)
            return ("cond", c, self.tr(e.body), self.tr(e.orelse))
        raise Unsupported(_u(e)[:100])


def _reads_literal_key(e: ast.AST) -> bool:
    for n in ast.walk(e):
        if isinstance(n, ast.Call) and isinstance(n.func, ast.Attribute) and n.func.attr == "get" and isinstance(n.func.value, ast.Name) \
                and n.args and isinstance(n.args[0], ast.Constant) and isinstance(n.args[0].value, str):
            return True
        if isinstance(n, ast.Subscript) and isinstance(n.value, ast.Name) and isinstance(n.slice, ast.Constant) and isinstance(n.slice.value, str) \
                and not n.value.id[:1].isupper():
            return True
    return False


def _callee(c: ast.Call) -> str:
    f = c.func
    return f.attr if isinstance(f, ast.Attribute) else f.id if isinstance(f, ast.Name) else _u(f)


def kwarg_sites() -> List[Dict]:
    """Every keyword argument, in the loaders of KWARG_FUNCTIONS, whose value reads a literal key of a mapping:
    {function, callee, keyword, mapping, own_key, alt_key, expr}; identical rows (the six ACLs of a firewall) collapse."""
    out, seen = [], set()
    for rel, cls, fn in KWARG_FUNCTIONS:
        f = find_method(class_def(parse(rel), cls), fn)
        calls = sorted((n for n in ast.walk(f) if isinstance(n, ast.Call) and n.keywords), key=lambda n: (n.lineno, n.col_offset))
        for c in calls:
            for kw in c.keywords:
                if kw.arg is None or not _reads_literal_key(kw.value):
                    continue
                if any(isinstance(n, ast.Call) and n is not kw.value and n.keywords and any(_reads_literal_key(k.value) for k in n.keywords)
                       for n in ast.walk(kw.value)):
                    continue            # an argument that is itself such a call: NIC(ip_address=..) inside connect_nic(..); the inner one is a site
                t = _KwTr()
                try:
                    e = t.tr(kw.value)
                except Unsupported as u:
                    if cls == "PrimaiteGame":
                        continue        # PrimaiteGame.from_config's attribute writes are covered by `slices()`; its call arguments best-effort
                    raise Unsupported(f"{cls}.{fn}: {_callee(c)}({kw.arg}=...) not translatable: {u}")
                row = dict(function=f"{cls}.{fn}", callee=_callee(c), keyword=kw.arg, mapping=t.mapping, own_key=t.keys[0],
                           alt_key=t.keys[1] if len(t.keys) > 1 else "", expr=e)
                k = repr(row)
                if k not in seen:
                    seen.add(k)
                    out.append(row)
    return out


# ------------------------------------------------------------------------------------------------ rendering (Lean)
def _lean_str(s: str) -> str:
    return '"' + s.replace("\\", "\\\\").replace('"', '\\"') + '"'


def _pv(v) -> str:
    k = v[0]
    if k == "none":
        return ".none"
    if k == "int":
        return f"(.int ({v[1]}))" if v[1] < 0 else f"(.int {v[1]})"
    if k == "str":
        try:
            n = int(v[1])
            return f"(.str {_lean_str(v[1])} (some ({n})))"
        except ValueError:
            return f"(.str {_lean_str(v[1])} none)"
    if k == "bool":
        return f"(.bool {'true' if v[1] else 'false'})"
    if k == "float0":
        return ".float0"
    raise Unsupported(str(v))


def _m(src: str, key: str) -> str:
    if src in ("own", "dflt"):
        return src
    return f"(other {_lean_str(src.split(':')[1])} {_lean_str(key)})"


def lean(e) -> str:
    k = e[0]
    if k == "lit":
        return f"(Py.lit {_pv(e[1])})"
    if k == "init":
        return "init"
    if k == "unbound":
        return "Py.unbound"
    if k in ("get", "sub", "has", "hasNot"):
        return f"(Py.{k} {_m(e[1], e[2])})"
    if k == "getD":
        return f"(Py.getD {_m(e[1], e[2])} {lean(e[3])})"
    if k in ("or", "and"):
        return f"(Py.{k} {lean(e[1])} {lean(e[2])})"
    if k in ("not", "isNone", "isNotNone", "int"):
        return f"(Py.{k} {lean(e[1])})"
    if k == "cond":
        return f"(Py.cond {lean(e[1])} {lean(e[2])} {lean(e[3])})"
    if k == "app":
        return f"(Py.app (fn {_lean_str(e[1])}) {lean(e[2])})"
    raise Unsupported(str(e)[:80])


# ------------------------------------------------------------------------------------------------ evaluation (Python; the same semantics)
ABSENT = object()
RAISES = ("raises",)


class _Float0:  # marker so that 0.0 and 0 stay apart
    pass


def _truthy(v) -> bool:
    return bool(v)


def _to_int(v):
    if v is None:
        return RAISES
    try:
        return int(v)
    except (TypeError, ValueError):
        return RAISES


def evaluate(e, own=ABSENT, dflt=ABSENT, init=None, other=None):
    """Value of the symbolic expression (a Python scalar) or RAISES."""
    ev = lambda x: evaluate(x, own, dflt, init, other)
    k = e[0]
    if k == "lit":
        v = e[1]
        return {"none": None, "float0": 0.0}.get(v[0], v[1] if len(v) > 1 else None)
    if k == "init":
        return init
    if k == "unbound":
        return RAISES
    if k in ("get", "getD", "sub", "has", "hasNot"):
        m = own if e[1] == "own" else dflt if e[1] == "dflt" else (other or {}).get((e[1], e[2]), ABSENT)
        if k == "get":
            return None if m is ABSENT else m
        if k == "getD":
            d = ev(e[3])
            return RAISES if d is RAISES else (d if m is ABSENT else m)
        if k == "sub":
            return RAISES if m is ABSENT else m
        return (m is not ABSENT) if k == "has" else (m is ABSENT)
    if k in ("or", "and"):
        a = ev(e[1])
        if a is RAISES:
            return RAISES
        return (a if _truthy(a) else ev(e[2])) if k == "or" else (ev(e[2]) if _truthy(a) else a)
    if k in ("not", "isNone", "isNotNone", "int"):
        a = ev(e[1])
        if a is RAISES:
            return RAISES
        return (not _truthy(a)) if k == "not" else (a is None) if k == "isNone" else (a is not None) if k == "isNotNone" else _to_int(a)
    if k == "cond":
        c = ev(e[1])
        if c is RAISES:
            return RAISES
        return ev(e[2]) if _truthy(c) else ev(e[3])
    if k == "app":          # an opaque table / constructor: the applied value is kept symbolic
        a = ev(e[2])
        return RAISES if a is RAISES else ("app", e[1], a)
    raise Unsupported(str(e)[:80])


def spec(own, dflt, init, c_own, c_dflt):
    """`effective` of Model/ConfigResolve.lean"""
    if own is not ABSENT:
        return c_own(own)
    if dflt is not ABSENT:
        return c_dflt(dflt)
    return init


# ------------------------------------------------------------------------------------------------ truthiness sites
def _is_boolean_valued(e: ast.AST) -> bool:
    """Expressions whose truthiness IS their value: comparisons, `not`, and/or of such, isinstance/issubclass/hasattr/callable."""
    if isinstance(e, ast.Compare):
        return True
    if isinstance(e, ast.UnaryOp) and isinstance(e.op, ast.Not):
        return True
    if isinstance(e, ast.BoolOp):
        return all(_is_boolean_valued(v) for v in e.values)
    if isinstance(e, ast.Call) and isinstance(e.func, ast.Name) and e.func.id in ("isinstance", "issubclass", "hasattr", "callable", "bool", "any", "all"):
        return True
    if isinstance(e, ast.Constant) and isinstance(e.value, bool):
        return True
    return False


def truthiness_sites() -> List[Tuple[str, str, str]]:
    """(function, form, tested value) for every truthiness test of a VALUE in the loader functions, in source order."""
    out = []
    for rel, cls, fn in LOADER_FUNCTIONS:
        f = find_method(class_def(parse(rel), cls), fn)
        found = []
        for n in ast.walk(f):
            tested = []
            if isinstance(n, (ast.If, ast.While, ast.IfExp)):
                tested.append(("if", n.test))
            elif isinstance(n, ast.BoolOp):
                # every operand but the last is tested; as a value-returning `or` / `and` the last one is the fallback
                tested += [("or" if isinstance(n.op, ast.Or) else "and", v) for v in n.values[:-1]]
            elif isinstance(n, ast.UnaryOp) and isinstance(n.op, ast.Not):
                tested.append(("not", n.operand))
            elif isinstance(n, ast.comprehension):
                tested += [("if", c) for c in n.ifs]
            elif isinstance(n, ast.Assert):
                tested.append(("if", n.test))
            for form, t in tested:
                if isinstance(t, ast.BoolOp) or _is_boolean_valued(t):
                    continue     # its operands are visited on their own
                found.append(((t.lineno, t.col_offset), form, _u(t)))
        out += [(f"{cls}.{fn}", form, src) for _, form, src in sorted(found)]
    return out


def emit() -> str:
    sl = slices()
    lines = ["import PrimaiteModel.Model.ConfigResolve", "namespace Primaite.Gen.ConfigResolve", "open Primaite.ConfigResolve", ""]
    for name, s in sl.items():
        site = s["site"]
        lines += [f"/-- `{site['target']}` when `PrimaiteGame.from_config` is through with the entry: `own` = the entry's "
                  f"`{site['own_key']}`, `dflt` = `defaults.{site['dflt_key']}` (`none` = key absent), `init` = what the constructor left -/",
                  f"def {name} (own dflt : Option PV) (init : R) (other : String → String → Option PV) : R :=",
                  "  " + lean(s["expr"]), ""]
    lines += ["/-- loops and guards that do not speak of the sources, around a statement that writes the attribute -/",
              "def structuralGuards : List (String × List String) := ["]
    lines += [f"  ({_lean_str(n)}, [" + ", ".join(_lean_str(g) for g in s["guards"]) + "])" + ("," if i < len(sl) - 1 else "")
              for i, (n, s) in enumerate(sl.items())]
    lines += ["]", "def targetWrites : List (String × Nat) := [" + ", ".join(f"({_lean_str(n)}, {s['writes']})" for n, s in sl.items()) + "]",
              "/-- every truthiness test of a VALUE in the loader functions: (function, form, tested expression) -/",
              "def truthinessSites : List (String × String × String) := ["]
    ts = list(dict.fromkeys(truthiness_sites()))   # distinct, first occurrence order
    lines += ["  (" + ", ".join(_lean_str(x) for x in t) + ")" + ("," if i < len(ts) - 1 else "") for i, t in enumerate(ts)]
    lines += ["]", "", "/-- every keyword argument of a call in `Router` / `Firewall` / `WirelessRouter.from_config` (and of the calls in "
              "`PrimaiteGame.from_config`) whose value is read from a mapping of the file, translated -/",
              "def kwargTable : List KwRow := ["]
    kws = kwarg_sites()
    for i, r in enumerate(kws):
        lines.append(f"  {{ function := {_lean_str(r['function'])}, callee := {_lean_str(r['callee'])}, keyword := {_lean_str(r['keyword'])}, "
                     f"ownKey := {_lean_str(r['own_key'])}, altKey := {_lean_str(r['alt_key'])},\n"
                     f"    f := fun own dflt fn => {lean(r['expr'])} }}" + ("," if i < len(kws) - 1 else ""))
    lines += ["]", "end Primaite.Gen.ConfigResolve", ""]
    return "\n".join(lines)
