"""Shape of RequestManager.__call__ and RequestManager.check_valid (simulator/core.py) as ordered step lists.

Each statement of the two bodies must be recognised as one of the steps below (logging, message strings and the
docstring are ignored); an unrecognised statement is an extractor failure, i.e. a broken tie."""
import ast

from harness.extract.util import class_def, find_method, parse

GEN_NAME = "RequestCore"


def _is_log_or_msg(st: ast.stmt) -> bool:
    if isinstance(st, ast.Expr) and isinstance(st.value, ast.Constant):
        return True  # docstring
    if isinstance(st, ast.Expr) and isinstance(st.value, ast.Call) and ast.unparse(st.value.func).startswith("_LOGGER."):
        return True
    if isinstance(st, ast.Assign) and ast.unparse(st.targets[0]) == "msg":
        return True
    return False


def _ret_status(body) -> str:
    """the status literal of `return RequestResponse(status=...)` / bool literal of `return True/False` ending a block"""
    body = [s for s in body if not _is_log_or_msg(s)]
    if len(body) != 1 or not isinstance(body[0], ast.Return):
        raise ValueError("block is not a single return: " + "; ".join(ast.unparse(s) for s in body)[:200])
    v = body[0].value
    if isinstance(v, ast.Constant) and isinstance(v.value, bool):
        return "true" if v.value else "false"
    if isinstance(v, ast.Call) and ast.unparse(v.func) == "RequestResponse":
        for kw in v.keywords:
            if kw.arg == "status" and isinstance(kw.value, ast.Constant):
                return kw.value.value
    raise ValueError("unrecognised return " + ast.unparse(v)[:120])


MISSING_TESTS = {
    # the membership test alone raises TypeError for an unhashable element (a list / dict at a key position)
    "request_key not in self.request_types": False,
    # guarded: an unhashable element is treated as "not a request name of this manager"
    "not _is_hashable(request_key) or request_key not in self.request_types": True,
}


def _is_hashable_helper_ok(tree: ast.Module) -> bool:
    """`_is_hashable` must be the three-line helper: try hash(x) / except TypeError: return False / return True"""
    fn = next((n for n in tree.body if isinstance(n, ast.FunctionDef) and n.name == "_is_hashable"), None)
    if fn is None:
        return False
    body = [s for s in fn.body if not (isinstance(s, ast.Expr) and isinstance(s.value, ast.Constant))]
    src = " ; ".join(" ".join(ast.unparse(s).split()) for s in body)
    arg = fn.args.args[0].arg if fn.args.args else "?"
    return src == f"try: hash({arg}) except TypeError: return False ; return True"


def _options_view_ok(tree: ast.Module) -> bool:
    """`RequestOptionsError(IndexError)` and `_RequestOptions(list)` whose `__getitem__` is
    try: return super().__getitem__(index) / except IndexError: raise RequestOptionsError(...) from None"""
    err = next((n for n in tree.body if isinstance(n, ast.ClassDef) and n.name == "RequestOptionsError"), None)
    view = next((n for n in tree.body if isinstance(n, ast.ClassDef) and n.name == "_RequestOptions"), None)
    if err is None or view is None:
        return False
    if [ast.unparse(b) for b in err.bases] != ["IndexError"] or [ast.unparse(b) for b in view.bases] != ["list"]:
        return False
    meths = [m for m in view.body if isinstance(m, ast.FunctionDef)]
    if [m.name for m in meths] != ["__getitem__"]:
        return False   # nothing else may be overridden (iteration, len, slicing stay those of list)
    g = [x for x in meths[0].body if not (isinstance(x, ast.Expr) and isinstance(x.value, ast.Constant))]
    if len(g) != 1 or not isinstance(g[0], ast.Try) or len(g[0].handlers) != 1:
        return False
    t = g[0]
    arg = meths[0].args.args[1].arg
    return (len(t.body) == 1 and ast.unparse(t.body[0]) == f"return super().__getitem__({arg})"
            and ast.unparse(t.handlers[0].type) == "IndexError" and len(t.handlers[0].body) == 1
            and isinstance(t.handlers[0].body[0], ast.Raise)
            and ast.unparse(t.handlers[0].body[0].exc).startswith("RequestOptionsError("))


# --------------------------------------------------------------------------- specialisation to what the callers can pass
KNOWN_LOCALS = {"request_key", "request_options", "request_type", "msg"}


def _extra_params_at_default(fn: ast.FunctionDef) -> dict:
    """Parameters of `check_valid` / `__call__` beyond (self, request, context).  Such a parameter is TRANSLATED by specialising
    the body to the value every caller gives it: it must have a constant default and NO call site in the package may pass it
    (positionally or by keyword), except the method handing its own parameter on unchanged in its recursion.  Then the parameter
    IS its default on every execution, and the body is partially evaluated for that value (`_fold`).  Anything else raises: the
    non-default behaviour would be code this model does not follow."""
    from harness.lib.core import SRC
    a = fn.args
    if a.vararg or a.kwarg or a.kwonlyargs or a.posonlyargs:
        raise ValueError(f"{fn.name}: *args / **kwargs / keyword-only parameters are not translated")
    pos = [x.arg for x in a.args]
    if pos[:3] != ["self", "request", "context"]:
        raise ValueError(f"{fn.name}: parameters {pos} do not start with (self, request, context)")
    extras = pos[3:]
    if not extras:
        return {}
    if fn.name == "__call__":
        raise ValueError(f"__call__ takes extra parameters {extras}: its call sites cannot be enumerated, not translated")
    defaults = dict(zip(reversed(pos), reversed(a.defaults)))
    consts = {}
    for name in extras:
        d = defaults.get(name)
        if not isinstance(d, ast.Constant):
            raise ValueError(f"{fn.name}: extra parameter {name} has no constant default")
        consts[name] = d.value
        for x in ast.walk(fn):
            if isinstance(x, ast.Name) and x.id == name and not isinstance(x.ctx, ast.Load):
                raise ValueError(f"{fn.name}: parameter {name} is reassigned in the body")
    for f in sorted(SRC.rglob("*.py")):
        for call in ast.walk(ast.parse(f.read_text())):
            if not (isinstance(call, ast.Call) and isinstance(call.func, ast.Attribute) and call.func.attr == fn.name):
                continue
            for name in extras:
                idx = pos.index(name) - 1
                passed = [call.args[idx]] if len(call.args) > idx else []
                passed += [kw.value for kw in call.keywords if kw.arg == name]
                if any(kw.arg is None for kw in call.keywords) or any(isinstance(x, ast.Starred) for x in call.args):
                    raise ValueError(f"{fn.name}: call with * / ** at {f.name}:{call.lineno}")
                for v in passed:
                    own_recursion = (str(f.relative_to(SRC)) == "simulator/core.py" and fn.lineno <= call.lineno <= fn.end_lineno
                                     and isinstance(v, ast.Name) and v.id == name)
                    if not own_recursion:
                        raise ValueError(f"{fn.name}: optional parameter `{name}` is passed by {f.relative_to(SRC)}:{call.lineno} "
                                         f"({ast.unparse(call)[:90]}): its non-default behaviour is not translated")
    return consts


def _const_test(test: ast.expr, consts: dict):
    """truth value of a test that only looks at a parameter known to be at its default; None = not such a test"""
    if isinstance(test, ast.Name) and test.id in consts:
        return bool(consts[test.id])
    if isinstance(test, ast.UnaryOp) and isinstance(test.op, ast.Not):
        v = _const_test(test.operand, consts)
        return None if v is None else (not v)
    if (isinstance(test, ast.Compare) and len(test.ops) == 1 and isinstance(test.left, ast.Name) and test.left.id in consts
            and isinstance(test.comparators[0], ast.Constant) and test.comparators[0].value is None):
        if isinstance(test.ops[0], ast.Is):
            return consts[test.left.id] is None
        if isinstance(test.ops[0], ast.IsNot):
            return consts[test.left.id] is not None
    return None


def _fold(stmts: list, consts: dict) -> list:
    out = []
    for st in stmts:
        if isinstance(st, ast.If):
            v = _const_test(st.test, consts)
            if v is not None:
                out += _fold(st.body if v else st.orelse, consts)
                continue
            st = ast.If(test=st.test, body=_fold(st.body, consts), orelse=_fold(st.orelse, consts))
        out.append(st)
    return out


class _DropArgs(ast.NodeTransformer):
    """the method handing its own at-default parameter on in its recursion: the argument is the default, drop it"""

    def __init__(self, name: str, consts: dict):
        self.name, self.consts = name, consts

    def visit_Call(self, node: ast.Call):
        self.generic_visit(node)
        if isinstance(node.func, ast.Attribute) and node.func.attr == self.name:
            node.args = [x for x in node.args if not (isinstance(x, ast.Name) and x.id in self.consts)]
            node.keywords = [k for k in node.keywords if k.arg not in self.consts]
        return node


class _Subst(ast.NodeTransformer):
    def __init__(self, name: str, value: ast.expr):
        self.name, self.value = name, value

    def visit_Name(self, node: ast.Name):
        return self.value if node.id == self.name and isinstance(node.ctx, ast.Load) else node


def _inline_temporaries(stmts: list, fn: ast.FunctionDef) -> list:
    """`t = <expr>` immediately followed by an `if` whose test is the ONLY reader of `t`: the test with `<expr>` in place of `t`
    (evaluation order and count unchanged: one evaluation, at the same point)."""
    out, i = [], 0
    while i < len(stmts):
        st = stmts[i]
        nxt = stmts[i + 1] if i + 1 < len(stmts) else None
        if (isinstance(st, ast.Assign) and len(st.targets) == 1 and isinstance(st.targets[0], ast.Name)
                and st.targets[0].id not in KNOWN_LOCALS and isinstance(nxt, ast.If)):
            t = st.targets[0].id
            reads_all = sum(1 for s in stmts for x in ast.walk(s) if isinstance(x, ast.Name) and x.id == t and isinstance(x.ctx, ast.Load))
            writes_all = sum(1 for s in stmts for x in ast.walk(s) if isinstance(x, ast.Name) and x.id == t and not isinstance(x.ctx, ast.Load))
            reads_test = sum(1 for x in ast.walk(nxt.test) if isinstance(x, ast.Name) and x.id == t)
            if reads_all == 1 and reads_test == 1 and writes_all == 1:
                out.append(ast.If(test=_Subst(t, st.value).visit(nxt.test), body=nxt.body, orelse=nxt.orelse))
                i += 2
                continue
        out.append(st)
        i += 1
    return out


def normalised_body(fn: ast.FunctionDef) -> list:
    consts = _extra_params_at_default(fn)
    body = list(fn.body)
    if consts:
        body = _fold(body, consts)
        body = [ast.fix_missing_locations(_DropArgs(fn.name, consts).visit(st)) for st in body]
        for st in body:   # nothing of the parameter may be left: what remains would be behaviour this model does not follow
            for x in ast.walk(st):
                if isinstance(x, ast.Name) and x.id in consts:
                    raise ValueError(f"{fn.name}: parameter `{x.id}` still read after specialising to its default: {ast.unparse(st)[:120]}")
    return [ast.fix_missing_locations(s) for s in _inline_temporaries(body, fn)]


def steps_of(fn: ast.FunctionDef, flags: dict = None) -> list:
    out = []
    for st in normalised_body(fn):
        if _is_log_or_msg(st):
            continue
        src = ast.unparse(st)
        if isinstance(st, ast.Assign):
            if src == "request_key = request[0]":
                out.append("takeKey")
            elif src == "request_options = request[1:]":
                out.append("takeOptions")
            elif src == "request_type = self.request_types[request_key]":
                out.append("lookup")
            else:
                raise ValueError("unrecognised assignment: " + src)
        elif isinstance(st, ast.If) and not st.orelse:
            test = ast.unparse(st.test)
            if test == "not request":
                out.append(f"ifEmpty_{_ret_status(st.body)}")
            elif test in MISSING_TESTS:
                out.append(f"ifMissing_{_ret_status(st.body)}")
                if flags is not None:
                    flags["guards_unhashable"] = MISSING_TESTS[test]
            elif test == "not request_type.validator(request_options, context)":
                out.append(f"ifValidatorFalse_{_ret_status(st.body)}")
            elif test == "isinstance(request_type.func, RequestManager)":
                b = [s for s in st.body if not _is_log_or_msg(s)]
                if len(b) == 1 and ast.unparse(b[0]) == "return request_type.func.check_valid(request_options, context)":
                    out.append("ifManager_recurse")
                elif len(b) == 1 and ast.unparse(b[0]) == "return request_type.func(request_options, context)":
                    out.append("ifManager_invoke")
                else:
                    raise ValueError("unrecognised manager branch: " + src[:200])
            else:
                raise ValueError("unrecognised test: " + test)
        elif isinstance(st, ast.Try):
            # try: return request_type.func(_RequestOptions(request_options), context)
            # except RequestOptionsError as e: <msg/log> return RequestResponse(status="failure", ...)
            body = [x for x in st.body if not _is_log_or_msg(x)]
            ok = (len(body) == 1 and ast.unparse(body[0]) == "return request_type.func(_RequestOptions(request_options), context)"
                  and not st.orelse and not st.finalbody and len(st.handlers) == 1
                  and st.handlers[0].type is not None and ast.unparse(st.handlers[0].type) == "RequestOptionsError")
            if not ok:
                raise ValueError("unrecognised try statement: " + src[:200])
            out.append(f"invokeLeaf_optionsError_{_ret_status(st.handlers[0].body)}")
        elif isinstance(st, ast.Return):
            if src == "return request_type.func(request_options, context)":
                out.append("invoke")
            elif src == "return request_type.validator(request_options, context)":
                out.append("returnLeafValidator")
            elif src in ("return True", "return False"):
                out.append("return_" + src.split()[1].lower())
            else:
                raise ValueError("unrecognised return: " + src)
        else:
            raise ValueError("unrecognised statement: " + src[:200])
    return out


def option_view_bypasses() -> list:
    """Every request handler / validator of the simulator (a function or lambda whose first parameter besides `self` is named
    `request`) that turns its options into a PLAIN sequence before reading them: `list(request)`, `tuple(request)`,
    `sorted/reversed(request)`, `copy(request)` / `deepcopy(request)` / `request.copy()`, `[*request]`, a slice `request[a:b]`,
    a concatenation `request + …`.  Such a copy is an ordinary list: an out-of-range read of it raises a plain IndexError, which
    `RequestManager.__call__` (rightly) does not catch.  RequestManager itself (core.py) slices the request by design and is
    excluded; a slice handed straight to another request manager (`x._request_manager(request[2:], context)`) re-enters the
    request layer and is not a bypass."""
    from harness.lib.core import SRC
    hits = []
    for f in sorted((SRC / "simulator").rglob("*.py")):
        rel = str(f.relative_to(SRC))
        if rel == "simulator/core.py":
            continue
        tree = ast.parse(f.read_text())
        for fn in ast.walk(tree):
            if not isinstance(fn, (ast.FunctionDef, ast.Lambda)):
                continue
            params = [a.arg for a in fn.args.args if a.arg != "self"]
            if not params or params[0] != "request":
                continue
            name = getattr(fn, "name", "<lambda>")
            body = fn.body if isinstance(fn.body, list) else [fn.body]
            parent = {}
            for b in body:
                for x in ast.walk(b):
                    for ch in ast.iter_child_nodes(x):
                        parent[id(ch)] = x
            for n in [x for b in body for x in ast.walk(b)]:
                is_req = lambda e: isinstance(e, ast.Name) and e.id == "request"   # noqa: E731
                bad = None
                if isinstance(n, ast.Call) and isinstance(n.func, ast.Name) and n.func.id in ("list", "tuple", "sorted", "reversed", "copy", "deepcopy") \
                        and n.args and is_req(n.args[0]):
                    bad = f"{n.func.id}(request)"
                elif isinstance(n, ast.Call) and isinstance(n.func, ast.Attribute) and n.func.attr in ("copy", "deepcopy") \
                        and (is_req(n.func.value) or (n.args and is_req(n.args[0]))):
                    bad = "copy of request"
                elif isinstance(n, ast.Subscript) and is_req(n.value) and isinstance(n.slice, ast.Slice):
                    bad = "request[a:b]"
                elif isinstance(n, ast.Starred) and is_req(n.value):
                    bad = "*request"
                elif isinstance(n, ast.BinOp) and isinstance(n.op, ast.Add) and (is_req(n.left) or is_req(n.right)):
                    bad = "request + …"
                par = parent.get(id(n))
                if bad and isinstance(par, ast.Call) and any(n is x for x in par.args) \
                        and ast.unparse(par.func).endswith(("_request_manager", "apply_request")):
                    bad = None   # the rest of the request is FORWARDED to a request manager, which wraps it again at its own leaf
                if bad:
                    hits.append(f"{rel}:{n.lineno} {name}: {bad}")
    return hits


def emit() -> str:
    tree = parse("simulator/core.py")
    rm = class_def(tree, "RequestManager")
    fcall, fcv = {}, {}
    call = steps_of(find_method(rm, "__call__"), fcall)
    cv = steps_of(find_method(rm, "check_valid"), fcv)
    helper = _is_hashable_helper_ok(tree)
    b = (lambda x: "true" if x else "false")
    names = sorted(set(call + cv) | {"takeKey", "takeOptions", "lookup", "invoke", "ifEmpty_unreachable", "ifMissing_unreachable",
                                      "ifValidatorFalse_failure", "ifEmpty_false", "ifMissing_false", "ifValidatorFalse_false",
                                      "ifManager_recurse", "return_true", "ifManager_invoke", "invokeLeaf_optionsError_failure"})
    ctors = " | ".join(names)
    return f"""namespace Primaite.Gen.RequestCore
inductive Step | {ctors}
deriving DecidableEq, Repr
open Step in
/-- statements of `RequestManager.__call__`, in order -/
def callSteps : List Step := [{", ".join(call)}]
open Step in
/-- statements of `RequestManager.check_valid`, in order -/
def checkValidSteps : List Step := [{", ".join(cv)}]
/-- does the "missing key" test of `__call__` / `check_valid` treat an UNHASHABLE request element (a list or dict at a key
position) as a missing key instead of letting `in` raise TypeError? (`_is_hashable` must be the try-hash helper) -/
def callTotalOnUnhashable : Bool := {b(fcall.get("guards_unhashable") and helper)}
def checkValidTotalOnUnhashable : Bool := {b(fcv.get("guards_unhashable") and helper)}
/-- is a leaf handler handed the options as `_RequestOptions` (a list whose out-of-range read raises `RequestOptionsError`, and
nothing else overridden), with exactly that exception answered `failure` by `__call__`? -/
def leafAnswersMissingOptions : Bool := {b("invokeLeaf_optionsError_failure" in call and "invoke" not in call and _options_view_ok(tree))}
/-- handlers / validators that copy or slice their options into a plain sequence before reading them (the view is bypassed) -/
def optionViewBypasses : List String := [{", ".join(chr(34) + h.replace(chr(92), "/").replace(chr(34), "'") + chr(34) for h in option_view_bypasses())}]
end Primaite.Gen.RequestCore
"""
