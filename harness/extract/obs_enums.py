"""E1: every `Enum` / `IntEnum` class under simulator/ and game/agent/scripted_agents, read with `ast`.

For an enum whose members are all int literals: an `inductive T`, `T.value`, `all`, a completeness proof and `values`.
For the others (string / mixed literals): the member table only.  Strict: any other member shape raises.
"""
import ast
from typing import Dict, List, Tuple

from harness.lib.core import SRC

GEN_NAME = "ObsEnums"
ROOTS = ["simulator", "game/agent/scripted_agents"]


def _is_enum(cls: ast.ClassDef) -> bool:
    for b in cls.bases:
        name = b.id if isinstance(b, ast.Name) else (b.attr if isinstance(b, ast.Attribute) else None)
        if name in ("Enum", "IntEnum"):
            return True
    return False


def read_enums() -> Dict[str, Tuple[str, List[Tuple[str, object]]]]:
    """class name -> (relative file, [(member, literal value)])"""
    out: Dict[str, Tuple[str, List[Tuple[str, object]]]] = {}
    for root in ROOTS:
        for f in sorted((SRC / root).rglob("*.py")):
            tree = ast.parse(f.read_text())
            for cls in ast.walk(tree):
                if not (isinstance(cls, ast.ClassDef) and _is_enum(cls)):
                    continue
                members = []
                for st in cls.body:
                    if isinstance(st, ast.Expr) and isinstance(st.value, ast.Constant) and isinstance(st.value.value, str):
                        continue  # docstring
                    if isinstance(st, ast.Assign) and len(st.targets) == 1 and isinstance(st.targets[0], ast.Name):
                        v = st.value
                        if isinstance(v, ast.Constant) and isinstance(v.value, (int, str)) and not isinstance(v.value, bool):
                            members.append((st.targets[0].id, v.value))
                            continue
                        if (isinstance(v, ast.UnaryOp) and isinstance(v.op, ast.USub) and isinstance(v.operand, ast.Constant)
                                and isinstance(v.operand.value, int)):
                            members.append((st.targets[0].id, -v.operand.value))
                            continue
                        raise ValueError(f"enum {cls.name}.{st.targets[0].id}: value is not an int/str literal")
                    if isinstance(st, (ast.FunctionDef, ast.Pass)):
                        continue
                    raise ValueError(f"enum {cls.name}: unrecognised statement {ast.dump(st)[:60]}")
                if cls.name in out:
                    raise ValueError(f"two enums named {cls.name}")
                out[cls.name] = (str(f.relative_to(SRC)), members)
    return out


def emit() -> str:
    enums = read_enums()
    for need in ("NodeOperatingState", "ServiceOperatingState", "ApplicationOperatingState", "SoftwareHealthState",
                 "FileSystemItemHealthStatus", "ACLAction"):
        if need not in enums:
            raise ValueError(f"enum {need} not found")
    parts = ["namespace Primaite.Gen.ObsEnums\n"]
    for name, (rel, members) in sorted(enums.items()):
        ints = members and all(isinstance(v, int) and v >= 0 for _, v in members)
        parts.append(f"-- `{name}` ({rel})\nnamespace {name}")
        if ints:
            ctors = " ".join(f"| «{m}»" for m, _ in members)
            parts.append(f"inductive T where {ctors}\n  deriving DecidableEq, Repr")
            parts.append("def T.value : T → Nat\n" + "\n".join(f"  | .«{m}» => {v}" for m, v in members))
            parts.append("def all : List T := [" + ", ".join(f".«{m}»" for m, _ in members) + "]")
            parts.append("theorem all_complete (x : T) : x ∈ all := by cases x <;> decide")
            parts.append("def values : List Nat := all.map T.value")
        else:
            tbl = ", ".join(f'("{m}", {json_str(v)})' for m, v in members)
            parts.append(f"def members : List (String × String) := [{tbl}]")
        parts.append(f"end {name}\n")
    parts.append("end Primaite.Gen.ObsEnums\n")
    return "\n".join(parts)


def json_str(v) -> str:
    s = str(v).replace("\\", "\\\\").replace('"', '\\"')
    return f'"{s}"'
