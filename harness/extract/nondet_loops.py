"""E10a-4: the LOOPS that iterate a hash-ordered set, translated statement by statement (Gen/NondetLoops.lean).  Pure ast.

For every `setIter` site of the inventory (harness/extract/nondet.py) whose consumer is a `for` statement, a comprehension or
`list(...)` / `tuple(...)` - i.e. everything except `sorted(<set>)`, whose consumer is the built-in sort - the real code is translated
into the loop language of lean/PrimaiteModel/Model/NoninterfLoop.lean:

  body   assignments to local names, `if` / `elif` / `else`, `pass`, and EMITS: `acc.append(e)` / `acc.add(e)` on a local that the
         function initialises with an empty display / `list()` / `set()` / `dict()`, `acc[k] = v` on such a local, the key/value of a
         dict comprehension, the element of a list/set comprehension or of `list(<set>)`.  The loop variable is a local like any
         other (`assign <var> elem` is put in front of the body; the body may re-bind it).  Expressions are translated into
         applications of UNINTERPRETED pure functions: only side-effect-free shapes are accepted (names, constants, attribute reads,
         subscripts, comparisons, boolean / arithmetic operators, calls of PURE_CALLS / PURE_METHODS).
  uses   every later occurrence of an accumulator in the function is classified: `set(acc)` / `frozenset(acc)` (asSet),
         `sorted(acc)` (asSorted), `len(acc)` (lenOnly), `acc[k]` / `acc.get(k)` / `k in acc` (byKey), anything else ORDERED.
         An accumulator handed to a method of the same class / a function defined once (positional) is classified by the uses of
         that parameter in the callee; handed as keyword `kw=acc` to a class defined once, by the uses of `self.kw` in that class.

A loop that cannot be translated (a call with an effect, `continue` / `break` / `return`, recursion, a store into an attribute …) is
emitted as `opaque "<reason>"`: such a site needs a discharge that does not rest on the loop's shape (`setIntHash`, `setTopo`,
`setCycleCheck`, `setEmpty`); `C03_gen_loops_order_free` demands a translated, WELL-FORMED loop with the matching use for every site
discharged by `setToSet` / `setNoEffect` / `setLengthOnly` / `setDictByKey`.
"""
from __future__ import annotations

import ast
from typing import Dict, List, Optional, Tuple

from harness.lib.core import SRC
from harness.extract import nondet as N

GEN_NAME = "NondetLoops"

PURE_CALLS = {"isinstance", "IPv4Address", "IPv4Network", "int", "str", "len", "bool", "float", "tuple", "Path", "type", "repr", "abs", "min", "max"}
PURE_METHODS = {"read_text", "lower", "upper", "strip", "get", "startswith", "endswith", "exists", "is_file", "is_dir", "keys", "values", "items"}
EMPTY_INITS = {"list", "set", "dict"}


class Opaque(Exception):
    pass


def _q(s: str) -> str:
    return '"' + s.replace("\\", "/").replace('"', "'") + '"'


class Tr:
    """translation of one loop body"""

    def __init__(self, accs: Dict[str, str]):
        self.accs = accs          # local accumulator name -> init kind

    def expr(self, e: ast.AST) -> str:
        if isinstance(e, ast.Constant):
            v = e.value
            if v is None or v is False:
                return "(.const 0)"
            if v is True:
                return "(.const 1)"
            if isinstance(v, int) and v >= 0:
                return f"(.const {v})"
            return f"(.app1 {_q('const:' + repr(v)[:40])} (.const 0))"
        if isinstance(e, ast.Name):
            if e.id in self.locals:
                return f"(.var {_q(e.id)})"
            if e.id in self.accs:
                raise Opaque(f"accumulator {e.id} read inside the loop")
            return f"(.app1 {_q('free:' + e.id)} (.const 0))"
        if isinstance(e, ast.Attribute):
            return f"(.app1 {_q('attr:' + e.attr)} {self.expr(e.value)})"
        if isinstance(e, ast.Subscript):
            return f"(.app2 \"getitem\" {self.expr(e.value)} {self.expr(e.slice)})"
        if isinstance(e, ast.UnaryOp):
            return f"(.app1 {_q('unary:' + type(e.op).__name__)} {self.expr(e.operand)})"
        if isinstance(e, ast.BinOp):
            return f"(.app2 {_q('binop:' + type(e.op).__name__)} {self.expr(e.left)} {self.expr(e.right)})"
        if isinstance(e, ast.BoolOp):
            name = "bool:" + type(e.op).__name__
            out = self.expr(e.values[0])
            for v in e.values[1:]:
                out = f"(.app2 {_q(name)} {out} {self.expr(v)})"
            return out
        if isinstance(e, ast.Compare) and len(e.ops) == 1:
            return f"(.app2 {_q('cmp:' + type(e.ops[0]).__name__)} {self.expr(e.left)} {self.expr(e.comparators[0])})"
        if isinstance(e, ast.Tuple) and len(e.elts) == 2:
            return f"(.app2 \"tuple\" {self.expr(e.elts[0])} {self.expr(e.elts[1])})"
        if isinstance(e, ast.Call) and not e.keywords and len(e.args) <= 2 and not any(isinstance(a, ast.Starred) for a in e.args):
            f = e.func
            if isinstance(f, ast.Name) and f.id in PURE_CALLS and f.id not in self.locals:
                args = [self.expr(a) for a in e.args] or ["(.const 0)"]
                return f"(.app{len(args)} {_q('call:' + f.id)} " + " ".join(args) + ")"
            if isinstance(f, ast.Attribute) and f.attr in PURE_METHODS and len(e.args) <= 1:
                args = [self.expr(f.value)] + [self.expr(a) for a in e.args]
                return f"(.app{len(args)} {_q('method:' + f.attr)} " + " ".join(args) + ")"
            raise Opaque(f"call of {ast.unparse(f)[:40]} (not known to be pure)")
        raise Opaque(f"expression {type(e).__name__}")

    def stmts(self, body: List[ast.stmt], k: str = "(.skip)") -> str:
        """a statement list followed by the (already translated) continuation `k`.  `continue` drops the continuation: the guard-clause
        shape `if c: continue; rest` is `if c: pass else: rest`."""
        if not body:
            return k
        s, rest = body[0], body[1:]
        if isinstance(s, ast.Continue):
            return "(.skip)"
        if isinstance(s, ast.If) and any(isinstance(n, ast.Continue) for n in ast.walk(s)):
            kk = self.stmts(rest, k)
            return self.ite(s.test, self.stmts(s.body, kk), self.stmts(s.orelse, kk))
        head = self.stmt(s)
        tail = self.stmts(rest, k)
        if head == "(.skip)":
            return tail
        if tail == "(.skip)":
            return head
        return f"(.seq {head} {tail})"

    def ite(self, test: ast.AST, t: str, f: str) -> str:
        """`if not c: A else: B` is `if c: B else: A` (Python's `not` is interpreted HERE, so that the loop language needs no negation)"""
        while isinstance(test, ast.UnaryOp) and isinstance(test.op, ast.Not):
            test, t, f = test.operand, f, t
        return f"(.ite {self.expr(test)} {t} {f})"

    def assign(self, name: str, value: ast.AST) -> str:
        """`x = a if c else b` is the statement `if c: x = a else: x = b` (same meaning, other shape)"""
        if isinstance(value, ast.IfExp):
            return self.ite(value.test, self.assign(name, value.body), self.assign(name, value.orelse))
        return f"(.assign {_q(name)} {self.expr(value)})"

    def stmt(self, s: ast.stmt) -> str:
        if isinstance(s, ast.Pass):
            return "(.skip)"
        if isinstance(s, ast.Expr) and isinstance(s.value, ast.Constant):
            return "(.skip)"   # docstring / bare constant
        if isinstance(s, (ast.Assign, ast.AnnAssign)):
            targets = s.targets if isinstance(s, ast.Assign) else [s.target]
            if s.value is None:
                return "(.skip)"
            if len(targets) != 1:
                raise Opaque("multiple assignment targets")
            t = targets[0]
            if isinstance(t, ast.Name):
                if t.id in self.accs:
                    raise Opaque(f"accumulator {t.id} re-bound inside the loop")
                return self.assign(t.id, s.value)
            if isinstance(t, ast.Subscript) and isinstance(t.value, ast.Name) and t.value.id in self.accs:
                return f"(.emit {_q(t.value.id)} {self.expr(t.slice)} {self.expr(s.value)})"
            raise Opaque(f"store into {ast.unparse(t)[:40]}")
        if isinstance(s, ast.If):
            return self.ite(s.test, self.stmts(s.body), self.stmts(s.orelse))
        if isinstance(s, ast.Expr) and isinstance(s.value, ast.Call):
            c = s.value
            f = c.func
            if (isinstance(f, ast.Attribute) and isinstance(f.value, ast.Name) and f.value.id in self.accs and f.attr in ("append", "add")
                    and len(c.args) == 1 and not c.keywords):
                v = self.expr(c.args[0])
                return f"(.emit {_q(f.value.id)} {v} {v})"
            raise Opaque(f"statement call {ast.unparse(f)[:40]}")
        raise Opaque(f"statement {type(s).__name__}")

    def loop(self, var: ast.AST, body: List[ast.stmt]) -> str:
        if not isinstance(var, ast.Name):
            raise Opaque("loop target is not a name")
        self.locals = {var.id} | {t.id for s in ast.walk(ast.Module(body=body, type_ignores=[])) if isinstance(s, (ast.Assign, ast.AnnAssign))
                                  for t in (s.targets if isinstance(s, ast.Assign) else [s.target]) if isinstance(t, ast.Name)}
        inner = self.stmts(body)
        head = f"(.assign {_q(var.id)} .elem)"
        return head if inner == "(.skip)" else f"(.seq {head} {inner})"



# ------------------------------------------------------------------------------------------------ path normal form
def _parse(txt: str):
    """the translator's text -> nested tuples: ('seq', a, b), ('assign', 'x', e), ('app1', 'f', a), ('const', 3), ('elem',) …"""
    import re
    toks = re.findall(r'"[^"]*"|[()]|[^\s()"]+', txt)
    pos = 0

    def rd():
        nonlocal pos
        t = toks[pos]
        pos += 1
        if t == "(":
            head = toks[pos].lstrip(".")
            pos += 1
            args = []
            while toks[pos] != ")":
                args.append(rd())
            pos += 1
            return (head, *args)
        if t.startswith('"'):
            return t[1:-1]
        if t.startswith("."):
            return (t[1:],)
        return int(t)
    return rd()


def _render(t) -> str:
    if isinstance(t, str):
        return _q(t)
    if isinstance(t, int):
        return str(t)
    if len(t) == 1:
        return "." + t[0]
    return "(." + t[0] + " " + " ".join(_render(x) for x in t[1:]) + ")"


def _subst(e, store):
    if e[0] == "var":
        return store.get(e[1], e)
    if e[0] == "app1":
        return ("app1", e[1], _subst(e[2], store))
    if e[0] == "app2":
        return ("app2", e[1], _subst(e[2], store), _subst(e[3], store))
    return e


def normal_form(body_txt: str) -> str:
    """PATH NORMAL FORM of a loop body, by symbolic execution: a decision tree of `ite` over conditions written in terms of the element
    (locals substituted by the expressions assigned to them; a local read before its assignment stays a `var`), emits at the leaves, no
    assignments.  Sound rewrites only: `if not c: A else: B` = `if c: B else: A`; a constant condition selects its branch (0 / None / False
    are falsy); a condition already decided on the path keeps its value (expressions are pure); `if c: A else: A` = `A`.  Two loops with the
    same normal form emit the same values for every element, whatever the pure functions compute - so the pin on the normal form
    survives a rewrite of the statements (guard clause, conditional expression, `x = None` before / `else: x = None` after)."""
    def ex(st, store, emits, known, k):
        h = st[0]
        if h == "skip":
            return k(store, emits, known)
        if h == "assign":
            return k({**store, st[1]: _subst(st[2], store)}, emits, known)
        if h == "seq":
            return ex(st[1], store, emits, known, lambda s2, e2, k2: ex(st[2], s2, e2, k2, k))
        if h == "emit":
            return k(store, emits + [("emit", st[1], _subst(st[2], store), _subst(st[3], store))], known)
        if h == "ite":
            c, flip = _subst(st[1], store), False
            while c[0] == "app1" and c[1] == "unary:Not":
                c, flip = c[2], not flip
            t, f = (st[3], st[2]) if flip else (st[2], st[3])
            if c[0] == "const":
                return ex(t if c[1] != 0 else f, store, emits, known, k)
            if c in known:
                return ex(t if known[c] else f, store, emits, known, k)
            a = ex(t, store, emits, {**known, c: True}, k)
            b = ex(f, store, emits, {**known, c: False}, k)
            return a if a == b else ("ite", c, a, b)
        raise ValueError(h)

    def leaf(_store, emits, _known):
        out = ("skip",)
        for e in reversed(emits):
            out = e if out == ("skip",) else ("seq", e, out)
        return out
    return _render(ex(_parse(body_txt), {}, [], {}, leaf))

# ------------------------------------------------------------------------------------------------ uses of an accumulator
RANK = ["dropped", "lenOnly", "asSet", "asSorted", "byKey", "ordered"]


def _parents(root: ast.AST) -> Dict[int, ast.AST]:
    out = {}
    for n in ast.walk(root):
        for ch in ast.iter_child_nodes(n):
            out[id(ch)] = n
    return out


def _classify_occurrence(n: ast.AST, parents, T, cls: Optional[ast.ClassDef], depth: int = 0) -> List[str]:
    """how the value of the expression node `n` (an accumulator or a parameter / attribute holding it) is consumed"""
    p = parents.get(id(n))
    if isinstance(p, ast.Call) and n in p.args:
        f = p.func
        name = f.id if isinstance(f, ast.Name) else (f.attr if isinstance(f, ast.Attribute) else "?")
        if isinstance(f, ast.Name) and name in ("set", "frozenset"):
            return ["asSet"]
        if isinstance(f, ast.Name) and name == "sorted" and not p.keywords:
            return ["asSorted"]
        if isinstance(f, ast.Name) and name == "len":
            return ["lenOnly"]
        if depth < 2:
            idx = p.args.index(n)
            callee = None
            if isinstance(f, ast.Attribute) and isinstance(f.value, ast.Name) and f.value.id == "self" and cls is not None:
                ms = [m for m in cls.body if isinstance(m, ast.FunctionDef) and m.name == name]
                if len(ms) == 1:
                    callee, idx = ms[0], idx + 1
            elif isinstance(f, ast.Name) and len(T.func_defs.get(name, [])) == 1:
                callee = T.func_defs[name][0][1] if isinstance(T.func_defs[name][0], tuple) else T.func_defs[name][0]
            if isinstance(callee, ast.FunctionDef) and idx < len(callee.args.args) and not callee.args.vararg:
                return _param_uses(callee, callee.args.args[idx].arg, T, cls, depth + 1)
        return ["ordered"]
    if isinstance(p, ast.keyword) and depth < 2:
        call = parents.get(id(p))
        if isinstance(call, ast.Call) and isinstance(call.func, ast.Name) and p.arg:
            cds = T_classes(T).get(call.func.id, [])
            if len(cds) == 1:
                return _attr_uses(cds[0], p.arg, T, depth + 1)
        return ["ordered"]
    if isinstance(p, ast.Subscript) and p.value is n and isinstance(p.ctx, ast.Load):
        return ["byKey"]
    if isinstance(p, ast.Attribute) and p.value is n and p.attr == "get":
        gp = parents.get(id(p))
        if isinstance(gp, ast.Call) and gp.func is p:
            return ["byKey"]
    if isinstance(p, ast.Compare) and n in p.comparators and all(isinstance(o, (ast.In, ast.NotIn)) for o in p.ops):
        return ["byKey"]
    return ["ordered"]


def _param_uses(fn: ast.FunctionDef, param: str, T, cls, depth: int) -> List[str]:
    parents = _parents(fn)
    out: List[str] = []
    for n in ast.walk(fn):
        if isinstance(n, ast.Name) and n.id == param:
            if isinstance(n.ctx, ast.Store):
                return ["ordered"]
            out += _classify_occurrence(n, parents, T, cls, depth)
    return out or ["dropped"]


def _attr_uses(cd: ast.ClassDef, attr: str, T, depth: int) -> List[str]:
    parents = _parents(cd)
    out: List[str] = []
    for n in ast.walk(cd):
        if isinstance(n, ast.Attribute) and n.attr == attr and isinstance(n.value, ast.Name) and n.value.id == "self":
            if isinstance(n.ctx, ast.Store):
                return ["ordered"]
            out += _classify_occurrence(n, parents, T, cd, depth)
    return out or ["dropped"]


_CLASSES: Dict[int, Dict[str, List[ast.ClassDef]]] = {}


def T_classes(T) -> Dict[str, List[ast.ClassDef]]:
    if id(T) not in _CLASSES:
        d: Dict[str, List[ast.ClassDef]] = {}
        for fi in T.files:
            for n in ast.walk(fi.tree):
                if isinstance(n, ast.ClassDef):
                    d.setdefault(n.name, []).append(n)
        _CLASSES[id(T)] = d
    return _CLASSES[id(T)]


def _worst(us: List[str]) -> List[str]:
    us = sorted(set(us), key=RANK.index)
    if "ordered" in us:
        return ["ordered"]
    return [u for u in us if u != "dropped"] or ["dropped"]


# ------------------------------------------------------------------------------------------------ finding and translating the sites
def _scope_node(tree: ast.Module, qual: str) -> Optional[ast.AST]:
    node: ast.AST = tree
    for part in qual.split("."):
        nxt = None
        for n in ast.walk(node):
            if n is not node and isinstance(n, (ast.FunctionDef, ast.AsyncFunctionDef, ast.ClassDef)) and n.name == part:
                nxt = n
                break
        if nxt is None:
            return None
        node = nxt
    return node


def _enclosing_class(tree: ast.Module, fn: ast.AST) -> Optional[ast.ClassDef]:
    for n in ast.walk(tree):
        if isinstance(n, ast.ClassDef) and fn in n.body:
            return n
    return None


def _local_accs(fn: ast.AST) -> Dict[str, str]:
    """locals initialised EXACTLY once, with an empty list / set / dict"""
    inits: Dict[str, List[str]] = {}
    for n in ast.walk(fn):
        if isinstance(n, ast.Assign) and len(n.targets) == 1 and isinstance(n.targets[0], ast.Name):
            v = n.value
            kind = None
            if isinstance(v, (ast.List, ast.Dict)) and not (v.elts if isinstance(v, ast.List) else v.keys):
                kind = "list" if isinstance(v, ast.List) else "dict"
            elif isinstance(v, ast.Call) and isinstance(v.func, ast.Name) and v.func.id in EMPTY_INITS and not v.args and not v.keywords:
                kind = v.func.id
            inits.setdefault(n.targets[0].id, []).append(kind or "other")
    return {k: v[0] for k, v in inits.items() if len(v) == 1 and v[0] != "other"}


def _acc_uses(fn: ast.AST, acc: str, skip: ast.AST, T, cls) -> List[str]:
    """uses of local `acc` in `fn` outside the loop node `skip` (its initialisation does not count)"""
    parents = _parents(fn)
    inside = {id(x) for x in ast.walk(skip)}
    out: List[str] = []
    for n in ast.walk(fn):
        if isinstance(n, ast.Name) and n.id == acc and id(n) not in inside and isinstance(n.ctx, ast.Load):
            out += _classify_occurrence(n, parents, T, cls)
    return _worst(out or ["dropped"])


def translate_site(T, fi, scope: str, detail: str) -> Tuple[str, List[Tuple[str, str]]]:
    """-> (lean Stmt text, [(accumulator, use)]) or raises Opaque"""
    how, _, text = detail.partition(" <- ")
    fn = _scope_node(fi.tree, scope)
    if fn is None:
        raise Opaque("scope not found")
    cls = _enclosing_class(fi.tree, fn)
    parents = _parents(fn)
    accs = _local_accs(fn)
    cands = []
    for n in ast.walk(fn):
        if how == "for" and isinstance(n, ast.For) and N._txt(n.iter, 70) == text:
            cands.append(n)
        elif how in ("dictcomp", "listcomp", "setcomp") and isinstance(n, (ast.DictComp, ast.ListComp, ast.SetComp)) \
                and len(n.generators) == 1 and N._txt(n.generators[0].iter, 70) == text:
            cands.append(n)
        elif how in ("list", "tuple") and isinstance(n, ast.Call) and isinstance(n.func, ast.Name) and n.func.id == how \
                and len(n.args) == 1 and N._txt(n.args[0], 70) == text:
            cands.append(n)
    if len(cands) != 1:
        raise Opaque(f"{len(cands)} candidate nodes")
    n = cands[0]
    tr = Tr(accs)
    if isinstance(n, ast.For):
        if n.orelse:
            raise Opaque("for-else")
        body = tr.loop(n.target, n.body)
        used = sorted({a for a in accs if f'(.emit "{a}" ' in body})
        return body, [(a, u) for a in used for u in _acc_uses(fn, a, n, T, cls)]
    if isinstance(n, ast.Call):
        body = '(.emit "<result>" .elem .elem)'
        return body, [("<result>", u) for u in _worst(_classify_occurrence(n, parents, T, cls))]
    # comprehensions
    g = n.generators[0]
    if g.is_async or not isinstance(g.target, ast.Name):
        raise Opaque("comprehension target")
    tr.locals = {g.target.id}
    if isinstance(n, ast.DictComp):
        em = f'(.emit "<result>" {tr.expr(n.key)} {tr.expr(n.value)})'
    else:
        v = tr.expr(n.elt)
        em = f'(.emit "<result>" {v} {v})'
    for c in reversed(g.ifs):
        em = tr.ite(c, em, "(.skip)")
    body = f"(.seq (.assign {_q(g.target.id)} .elem) {em})"
    # who consumes the comprehension's value: an assignment to a local name -> that name's uses; else the expression's own context
    p = parents.get(id(n))
    if isinstance(p, ast.Assign) and len(p.targets) == 1 and isinstance(p.targets[0], ast.Name):
        name = p.targets[0].id
        stores = [x for x in ast.walk(fn) if isinstance(x, ast.Name) and x.id == name and isinstance(x.ctx, ast.Store)]
        if len(stores) != 1:
            raise Opaque(f"{name} assigned more than once")
        uses = _acc_uses(fn, name, p, T, cls)
    else:
        uses = _worst(_classify_occurrence(n, parents, T, cls))
    # a dict comprehension keyed by the loop variable itself: the key is the element
    if isinstance(n, ast.DictComp) and isinstance(n.key, ast.Name) and n.key.id == g.target.id:
        body = body.replace(f'(.emit "<result>" (.var {_q(g.target.id)}) ', '(.emit "<result>" .elem ', 1)
    return body, [("<result>", u) for u in uses]


def rows() -> List[Tuple[str, str, str, int, str]]:
    """[(file, scope, detail, occ, lean Translation)] for every setIter site that is not `sorted <- …`"""
    T = N.Tree()
    by_rel = {fi.rel: fi for fi in T.files}
    out = []
    for f, scope, kind, detail, occ, _fact in N.collect_with_facts():
        if kind != "setIter" or detail.startswith("sorted <- "):
            continue
        try:
            body, uses = translate_site(T, by_rel[f], scope, detail)
            us = "[" + ", ".join(f"({_q(a)}, .{u})" for a, u in uses) + "]"
            lean = f".loop ⟨{body}, {us}⟩ ⟨{normal_form(body)}, {us}⟩"
        except Opaque as e:
            lean = f".opaque {_q(str(e))}"
        out.append((f, scope, detail, occ, lean))
    return out


def ordered_result_callers(rs=None) -> List[Tuple[str, List[Tuple[str, str, str]]]]:
    """For every translated loop whose value is used in ORDER (returned / concatenated into the function's result), and whose function
    name is defined exactly once in the tree: every call site of that function (by name, tree-wide) with the way the call's value is
    consumed there - `member` (operand of `in` / `not in`), `for` (iterated), `len`, `set`, `sorted`, or `other:<node>`.
    (An int-valued set iterates in an order that depends on the INSERTION order of colliding values; when the insertions come from a
    string-hashed set - `listen_on_ports` - that order depends on PYTHONHASHSEED, so the result may only be consumed order-free.)"""
    T = N.Tree()
    out = []
    for f, scope, detail, occ, lean in (rs if rs is not None else rows()):
        if ", .ordered)" not in lean:
            continue
        fname = scope.split(".")[-1]
        if len(T.func_defs.get(fname, [])) != 1:
            continue
        calls = []
        for fi in T.files:
            par = T.parents_of(fi)
            for qual, node in N._scopes(fi.tree):
                for n in N._own_nodes(node):
                    if isinstance(n, ast.Call) and isinstance(n.func, (ast.Attribute, ast.Name)) and \
                            (n.func.attr if isinstance(n.func, ast.Attribute) else n.func.id) == fname:
                        p = par.get(id(n))
                        if isinstance(p, ast.Compare) and n in p.comparators and all(isinstance(o, (ast.In, ast.NotIn)) for o in p.ops):
                            how = "member"
                        elif isinstance(p, (ast.For, ast.comprehension)) and p.iter is n:
                            how = "for"
                        elif isinstance(p, ast.Call) and isinstance(p.func, ast.Name) and p.func.id in ("len", "set", "frozenset", "sorted") and n in p.args:
                            how = p.func.id
                        else:
                            how = "other:" + type(p).__name__
                        calls.append((fi.rel, qual, how))
        out.append((fname, sorted(calls)))
    return out


def emit() -> str:
    rs = rows()
    L = ["import PrimaiteModel.Model.NoninterfLoop",
         "namespace Primaite.Gen.NondetLoops",
         "open Primaite.Noninterf.LoopIR",
         "/-- `loop raw normal`: the statement-by-statement translation, and its path normal form (see harness/extract/nondet_loops.py) -/\ninductive Translation\n  | loop (l : Loop) (normal : Loop)\n  | opaque (why : String)\n  deriving DecidableEq, Repr",
         f"/-- {len(rs)} set iterations whose consumer is a loop / comprehension / list(): (file, scope, detail, occurrence, translation) -/",
         "def loops : List (String × String × String × Nat × Translation) := [\n  " + ",\n  ".join(
             f"({_q(f)}, {_q(s)}, {_q(d)}, {o}, {t})" for f, s, d, o, t in rs) + "]",
         "/-- functions whose result carries the iteration order of a set: every call site and how the result is consumed there -/",
         "def orderedResultCallers : List (String × List (String × String × String)) := [\n  " + ",\n  ".join(
             f"({_q(fn)}, [" + ", ".join(f"({_q(a)}, {_q(b)}, {_q(c)})" for a, b, c in cs) + "])" for fn, cs in ordered_result_callers(rs)) + "]",
         "end Primaite.Gen.NondetLoops"]
    return "\n".join(L) + "\n"


if __name__ == "__main__":
    for r in rows():
        print(r)
    print(ordered_result_callers())
