"""E10a-2: the SEEDING PATH of session/environment.py as a Lean table (Gen/NondetSeeding.lean).  Pure ast, strict.

What is read, and the only shapes accepted (anything else raises, i.e. is a broken extractor obligation):

  set_random_seed(seed, generate_seed_value)
      if <t1> or <t2> …:                 tests on `seed`: `seed is None`, `seed is not None`, `seed == k`, `seed < k`, `seed`, `not seed`
          if generate_seed_value: <seed := something drawn from an unseeded generator>   else: return None
      elif <t>: raise …
      <seeding calls>                    every call whose resolved name is random.seed / numpy.random.seed / torch.manual_seed,
                                         with its argument text and the `if` tests around it
      return seed

  PrimaiteGymEnv.__init__                the ordered list of calls made at statement level (dotted names), the expression assigned to
                                         `self.seed` before `set_random_seed(self.seed, self.generate_seed_value)`, and the arguments of
                                         that call
  PrimaiteGymEnv.reset                   the same call list; the tests (all enclosing `if`s) under which `set_random_seed` is called,
                                         and its arguments
  PrimaiteRayEnv.reset                   that `seed=seed` is handed on to `self.env.reset`

The Lean side (`Props/C03.lean`) turns the tests into `Noninterf.SeedTest` values, proves that the regenerated shape is the
shape the theorems are about (`C03_gen_seed_shape`), that seeding precedes the construction of the game in `__init__` and
in `reset` (`C03_gen_seed_before_build`), and that every generator family some draw site uses is seeded
(`C03_gen_draw_families_seeded`, over the facts of Gen/Nondet.lean).
"""
from __future__ import annotations

import ast
from typing import List, Optional, Tuple

from harness.lib.core import SRC

GEN_NAME = "NondetSeeding"
SEED_FUNCS = {"random.seed": "py", "numpy.random.seed": "np", "torch.manual_seed": "torch"}


def _lstr(x: str) -> str:
    return '"' + x.replace("\\", "/").replace('"', "'") + '"'


def _test(t: ast.AST, var: str) -> str:
    """one test on the variable `var` -> a Lean `Test` term"""
    if isinstance(t, ast.Name) and t.id == var:
        return ".truthy"
    if isinstance(t, ast.UnaryOp) and isinstance(t.op, ast.Not) and isinstance(t.operand, ast.Name) and t.operand.id == var:
        return ".falsy"
    if isinstance(t, ast.Compare) and len(t.ops) == 1 and isinstance(t.left, ast.Name) and t.left.id == var:
        op, rhs = t.ops[0], t.comparators[0]
        if isinstance(rhs, ast.Constant) and rhs.value is None:
            if isinstance(op, ast.Is):
                return ".isNone"
            if isinstance(op, ast.IsNot):
                return ".isNotNone"
            if isinstance(op, ast.Eq):
                return ".isNone"
            if isinstance(op, ast.NotEq):
                return ".isNotNone"
        k: Optional[int] = None
        if isinstance(rhs, ast.Constant) and isinstance(rhs.value, int) and not isinstance(rhs.value, bool):
            k = rhs.value
        if isinstance(rhs, ast.UnaryOp) and isinstance(rhs.op, ast.USub) and isinstance(rhs.operand, ast.Constant) and isinstance(rhs.operand.value, int):
            k = -rhs.operand.value
        if k is not None:
            if isinstance(op, ast.Eq):
                return f".eqInt ({k})"
            if isinstance(op, ast.Lt):
                return f".ltInt ({k})"
            if isinstance(op, ast.LtE):
                return f".ltInt ({k + 1})"
    return f".other {_lstr(ast.unparse(t))}"


def _disjuncts(t: ast.AST) -> List[ast.AST]:
    return list(t.values) if isinstance(t, ast.BoolOp) and isinstance(t.op, ast.Or) else [t]


def _conjuncts(t: ast.AST) -> List[ast.AST]:
    return list(t.values) if isinstance(t, ast.BoolOp) and isinstance(t.op, ast.And) else [t]


class _Imports:
    def __init__(self, tree: ast.Module):
        self.alias, self.frm = {}, {}
        for n in ast.walk(tree):
            if isinstance(n, ast.Import):
                for a in n.names:
                    self.alias[a.asname or a.name.split(".")[0]] = a.name if a.asname else a.name.split(".")[0]
            elif isinstance(n, ast.ImportFrom) and n.module:
                for a in n.names:
                    self.frm[a.asname or a.name] = f"{n.module}.{a.name}"

    def resolve(self, f: ast.AST) -> str:
        parts = []
        while isinstance(f, ast.Attribute):
            parts.append(f.attr)
            f = f.value
        if not isinstance(f, ast.Name):
            return ast.unparse(f) + ("." + ".".join(reversed(parts)) if parts else "")
        head = f.id
        base = self.frm.get(head) or self.alias.get(head) or head
        return ".".join([base, *reversed(parts)])


def _func(tree: ast.Module, name: str, cls: Optional[str] = None) -> ast.FunctionDef:
    scope = tree
    if cls:
        scope = next((n for n in tree.body if isinstance(n, ast.ClassDef) and n.name == cls), None)
        if scope is None:
            raise ValueError(f"class {cls} not found")
    fn = next((n for n in scope.body if isinstance(n, ast.FunctionDef) and n.name == name), None)
    if fn is None:
        raise ValueError(f"{cls + '.' if cls else ''}{name} not found")
    return fn


def _guards_of(fn: ast.FunctionDef, target: ast.AST) -> List[Tuple[ast.AST, bool]]:
    """the (test, in-body?) of every `if` / `while` / `for` / `try` around `target`, outermost first; raises for anything but `if`"""
    path: List[Tuple[ast.AST, bool]] = []

    def rec(node, acc) -> bool:
        if node is target:
            path.extend(acc)
            return True
        if isinstance(node, ast.If):
            for b in node.body:
                if rec(b, acc + [(node.test, True)]):
                    return True
            for b in node.orelse:
                if rec(b, acc + [(node.test, False)]):
                    return True
            return rec(node.test, acc)
        if isinstance(node, (ast.For, ast.While, ast.Try, ast.With)) and any(x is target for x in ast.walk(node)):
            raise ValueError(f"the call sits inside a {type(node).__name__} statement")
        for ch in ast.iter_child_nodes(node):
            if rec(ch, acc):
                return True
        return False

    if not rec(fn, []):
        raise ValueError("call not found in function")
    return path


def _calls_in_order(fn: ast.FunctionDef, imp: _Imports) -> List[str]:
    """dotted names of the calls in the function body, in source order (a call's arguments before the call itself)"""
    out: List[Tuple[int, int, str]] = []
    for n in ast.walk(fn):
        if isinstance(n, ast.Call):
            nm = imp.resolve(n.func)
            for pre in ("self.game.", "self.", "primaite.session.episode_schedule.", "primaite.session.io.", "primaite.game.game.",
                        "primaite.simulator.system.core.packet_capture."):
                if nm.startswith(pre):
                    nm = nm[len(pre):]
            out.append((n.end_lineno, n.end_col_offset, nm))
    return [c for _, _, c in sorted(out)]


def emit() -> str:
    src = (SRC / "session" / "environment.py").read_text()
    tree = ast.parse(src)
    imp = _Imports(tree)
    L = ["namespace Primaite.Gen.NondetSeeding",
         "/-- a test on the `seed` argument -/",
         "inductive Test\n  | isNone | isNotNone | truthy | falsy | eqInt (n : Int) | ltInt (n : Int) | other (txt : String)\n  deriving DecidableEq, Repr"]

    # ---------------------------------------------------------------- set_random_seed
    f = _func(tree, "set_random_seed")
    params = [a.arg for a in f.args.args]
    if params != ["seed", "generate_seed_value"]:
        raise ValueError(f"set_random_seed parameters {params}")
    body = [st for st in f.body if not (isinstance(st, ast.Expr) and isinstance(st.value, ast.Constant))]  # drop the docstring
    if not body or not isinstance(body[0], ast.If):
        raise ValueError("set_random_seed does not start with the `if <no seed given>` statement")
    first = body[0]
    absent = [_test(t, "seed") for t in _disjuncts(first.test)]
    # absent branch: `if generate_seed_value: … seed = … else: return None`
    if len(first.body) != 1 or not isinstance(first.body[0], ast.If) or ast.unparse(first.body[0].test) != "generate_seed_value":
        raise ValueError("the no-seed branch is not `if generate_seed_value: … else: return None`")
    gen_if = first.body[0]
    generates = any(isinstance(st, ast.Assign) and any(isinstance(t, ast.Name) and t.id == "seed" for t in st.targets) for st in gen_if.body)
    else_none = (len(gen_if.orelse) == 1 and isinstance(gen_if.orelse[0], ast.Return)
                 and (gen_if.orelse[0].value is None or (isinstance(gen_if.orelse[0].value, ast.Constant) and gen_if.orelse[0].value.value is None)))
    invalid: List[str] = []
    raises = False
    if first.orelse:
        if len(first.orelse) != 1 or not isinstance(first.orelse[0], ast.If) or first.orelse[0].orelse:
            raise ValueError("the `elif` after the no-seed test is not a single `elif <test>: raise`")
        el = first.orelse[0]
        invalid = [_test(t, "seed") for t in _disjuncts(el.test)]
        raises = len(el.body) == 1 and isinstance(el.body[0], ast.Raise)
    # seeding calls anywhere in the function (their guards recorded); no seeding call may sit inside the first `if`
    seed_calls: List[str] = []
    for n in ast.walk(f):
        if isinstance(n, ast.Call) and imp.resolve(n.func) in SEED_FUNCS:
            fam = SEED_FUNCS[imp.resolve(n.func)]
            arg = ", ".join(ast.unparse(a) for a in n.args) + "".join(f", {k.arg}={ast.unparse(k.value)}" for k in n.keywords)
            guards = _guards_of(f, n)
            if any(g is first.test for g, _ in guards):
                raise ValueError(f"{ast.unparse(n)} sits inside the no-seed branch")
            gtxt = [("" if pos else "not ") + ast.unparse(g) for g, pos in guards]
            seed_calls.append((n.lineno, f'({_lstr(fam)}, {_lstr(arg)}, [{", ".join(_lstr(g) for g in gtxt)}])'))
    seed_calls.sort()
    last = body[-1]
    returns_seed = isinstance(last, ast.Return) and isinstance(last.value, ast.Name) and last.value.id == "seed"
    # `seed` must not be re-assigned outside the generate branch
    reassigned = [ast.unparse(st) for st in ast.walk(f) if isinstance(st, (ast.Assign, ast.AugAssign, ast.AnnAssign))
                  and any(isinstance(t, ast.Name) and t.id == "seed" for t in (st.targets if isinstance(st, ast.Assign) else [st.target]))
                  and not any(st is x for x in ast.walk(gen_if))]
    L += ["/-- `if <absent₁> or …:` -/", f"def absent : List Test := [{', '.join(absent)}]",
          f"def absentGenerates : Bool := {'true' if generates else 'false'}",
          f"def absentElseReturnsNone : Bool := {'true' if else_none else 'false'}",
          "/-- `elif <invalid>: raise` -/", f"def invalid : List Test := [{', '.join(invalid)}]",
          f"def invalidRaises : Bool := {'true' if raises else 'false'}",
          "/-- (family, argument text, enclosing `if` tests) of every seeding call, in source order -/",
          "def seedCalls : List (String × String × List String) := [" + ", ".join(c for _, c in seed_calls) + "]",
          f"def returnsSeed : Bool := {'true' if returns_seed else 'false'}",
          "/-- assignments to `seed` outside the generate branch (must be none) -/",
          f"def seedReassigned : List String := [{', '.join(_lstr(x) for x in reassigned)}]"]

    # ---------------------------------------------------------------- PrimaiteGymEnv.__init__ and reset
    for meth in ("__init__", "reset"):
        fn = _func(tree, meth, "PrimaiteGymEnv")
        calls = [n for n in ast.walk(fn) if isinstance(n, ast.Call) and imp.resolve(n.func).endswith("set_random_seed")]
        if len(calls) != 1:
            raise ValueError(f"PrimaiteGymEnv.{meth}: {len(calls)} calls of set_random_seed")
        c = calls[0]
        args = [ast.unparse(a) for a in c.args] + [f"{k.arg}={ast.unparse(k.value)}" for k in c.keywords]
        guards = _guards_of(fn, c)
        tests: List[str] = []
        for g, pos in guards:
            if not pos:
                raise ValueError(f"PrimaiteGymEnv.{meth}: set_random_seed is called in an else branch")
            tests += [_test(t, "seed") for t in _conjuncts(g)]
        tag = "init" if meth == "__init__" else "reset"
        L += [f"/-- PrimaiteGymEnv.{meth}: arguments of the set_random_seed call, the tests around it, and every call in source order -/",
              f"def {tag}SeedArgs : List String := [{', '.join(_lstr(a) for a in args)}]",
              f"def {tag}Guard : List Test := [{', '.join(tests)}]",
              f"def {tag}Calls : List String := [{', '.join(_lstr(x) for x in _calls_in_order(fn, imp))}]"]
        if meth == "__init__":
            # what is assigned to self.seed / self.generate_seed_value before the call
            srcs = {}
            for st in fn.body:
                if isinstance(st, ast.Assign) and len(st.targets) == 1 and isinstance(st.targets[0], ast.Attribute) and st.lineno < c.lineno:
                    srcs[st.targets[0].attr] = ast.unparse(st.value)
            L += [f"def initSeedSource : String := {_lstr(srcs.get('seed', '?'))}",
                  f"def initGenerateSource : String := {_lstr(srcs.get('generate_seed_value', '?'))}"]

    # ---------------------------------------------------------------- PrimaiteRayEnv.reset hands the seed on
    ray = ast.parse((SRC / "session" / "ray_envs.py").read_text())
    rfn = _func(ray, "reset", "PrimaiteRayEnv")
    handed = [ast.unparse(k.value) for n in ast.walk(rfn) if isinstance(n, ast.Call) and ast.unparse(n.func) == "self.env.reset"
              for k in n.keywords if k.arg == "seed"]
    n_env_resets = sum(1 for n in ast.walk(rfn) if isinstance(n, ast.Call) and ast.unparse(n.func) == "self.env.reset")
    L += ["/-- PrimaiteRayEnv.reset: the `seed=` keyword of every `self.env.reset(...)` call, and the number of such calls -/",
          f"def rayResetSeedArgs : List String := [{', '.join(_lstr(x) for x in handed)}]",
          f"def rayResetCalls : Nat := {n_env_resets}"]
    L.append("end Primaite.Gen.NondetSeeding")
    return "\n".join(L) + "\n"


if __name__ == "__main__":
    print(emit())
