"""Helpers shared by the extractors. Pure `ast`; never imports the code under test."""
import ast
from functools import lru_cache
from pathlib import Path

from harness.lib.core import SRC


def src_of(rel: str) -> str:
    return (SRC / rel).read_text()


def parse(rel: str) -> ast.Module:
    return ast.parse(src_of(rel))


def class_def(tree: ast.AST, name: str) -> ast.ClassDef:
    for n in ast.walk(tree):
        if isinstance(n, ast.ClassDef) and n.name == name:
            return n
    raise ValueError(f"class {name} not found")


def find_method(cls: ast.ClassDef, name: str) -> ast.FunctionDef:
    for n in cls.body:
        if isinstance(n, ast.FunctionDef) and n.name == name:
            return n
    raise ValueError(f"method {cls.name}.{name} not found")


def find_function(tree: ast.AST, name: str) -> ast.FunctionDef:
    for n in ast.walk(tree):
        if isinstance(n, ast.FunctionDef) and n.name == name:
            return n
    raise ValueError(f"function {name} not found")
