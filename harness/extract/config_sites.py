"""E10c + E8 for the scenario loader: (1) the inventory of MAPPING-ITERATION sites in the loader functions (`.items()`, `.values()`,
`.keys()`, `for k in <mapping>`), (2) the constants / tables the Config model uses, (3) the shape of EpisodeListScheduler.__call__.
Pure `ast`; strict: an unrecognised shape raises."""
import ast
from typing import List, Tuple

from harness.extract.util import class_def, find_function, find_method, parse

GEN_NAME = "Config"

# (file, class or None, function): the functions that run while a scenario is loaded and that receive parts of the scenario
LOADER_FUNCTIONS = [
    ("game/game.py", "PrimaiteGame", "from_config"),
    ("simulator/network/hardware/base.py", "Node", "from_config"),
    ("simulator/network/hardware/base.py", "Node", "__init__"),
    ("simulator/network/hardware/base.py", "Node", "_install_system_software"),
    ("simulator/network/hardware/nodes/host/host_node.py", "HostNode", "__init__"),
    ("simulator/network/hardware/nodes/network/router.py", "Router", "from_config"),
    ("simulator/network/hardware/nodes/network/router.py", "Router", "__init__"),
    ("simulator/network/hardware/nodes/network/firewall.py", "Firewall", "from_config"),
    ("simulator/network/hardware/nodes/network/firewall.py", "Firewall", "__init__"),
    ("simulator/network/hardware/nodes/network/switch.py", "Switch", "__init__"),
    ("simulator/network/hardware/nodes/network/wireless_router.py", "WirelessRouter", "from_config"),
    ("simulator/network/creation.py", "NetworkNodeAdder", "from_config"),
    ("simulator/network/creation.py", "OfficeLANAdder", "add_nodes_to_net"),
    ("simulator/system/core/software_manager.py", "SoftwareManager", "install"),
    ("game/agent/interface.py", "AbstractAgent", "from_config"),
    ("game/agent/interface.py", "AbstractAgent", "model_post_init"),
    ("game/agent/actions/manager.py", "ActionManager", "__init__"),
    ("session/episode_schedule.py", "EpisodeListScheduler", "__call__"),
    ("simulator/network/airspace.py", "AirSpace", "set_frequency_max_capacity_mbps"),
]


def _iter_sites(fn: ast.FunctionDef) -> List[str]:
    """Expressions iterated over inside `fn` that are (or may be) mappings: `x.items()/.values()/.keys()` anywhere, and the
    iterable of every `for` / comprehension that is not a call to range/enumerate/sorted-of-list/set or a list display."""
    sites = []
    for node in ast.walk(fn):
        iters = []
        if isinstance(node, (ast.For, ast.AsyncFor)):
            iters.append(node.iter)
        if isinstance(node, (ast.ListComp, ast.SetComp, ast.DictComp, ast.GeneratorExp)):
            iters += [g.iter for g in node.generators]
        for it in iters:
            src = ast.unparse(it)
            core = it
            # sorted(x.items(), key=...) is still an iteration over the mapping x: record it with its wrapper
            if isinstance(core, ast.Call) and isinstance(core.func, ast.Attribute) and core.func.attr in ("items", "values", "keys"):
                sites.append(src)
            elif isinstance(core, ast.Call) and isinstance(core.func, ast.Name) and core.func.id == "sorted" and core.args and \
                    isinstance(core.args[0], ast.Call) and isinstance(core.args[0].func, ast.Attribute) and \
                    core.args[0].func.attr in ("items", "values", "keys"):
                sites.append(src)
            elif isinstance(core, ast.Call) and isinstance(core.func, ast.Name) and core.func.id in ("range", "enumerate", "set", "zip"):
                continue
            else:
                sites.append("LIST:" + src)  # iteration over a value that the scenario format makes a list (checked below)
    return sites


# iterables that are YAML lists (or Python-side sequences), by construction of the scenario format / of the code
KNOWN_LISTS = {
    "nodes_cfg", "node_cfg['users']", "node_cfg['services']", "node_cfg['applications']", "node_sets_cfg", "links_cfg", "agents_cfg",
    "self.config.users", "self.config.folders", "folder.get('files', [])", "routes", "config.get('routes')", "parsed_cfg['agents']",
    "filenames_to_join", "agent.reward_function.reward_components",
}


def _lean_str(s: str) -> str:
    return '"' + s.replace("\\", "\\\\").replace('"', '\\"') + '"'


def _system_software(rel: str, cls: str) -> List[str]:
    tree = parse(rel)
    c = class_def(tree, cls)
    for st in c.body:
        if isinstance(st, ast.AnnAssign) and ast.unparse(st.target) == "SYSTEM_SOFTWARE" and isinstance(st.value, ast.Dict):
            keys = []
            for k in st.value.keys:
                if k is None:
                    keys.append("**")
                elif isinstance(k, ast.Constant):
                    keys.append(k.value)
                else:
                    raise ValueError("SYSTEM_SOFTWARE key is not a literal")
            return keys
    raise ValueError(f"{cls}.SYSTEM_SOFTWARE dict literal not found")


def _field_default(rel: str, cls: str, field: str):
    schema = class_def(class_def(parse(rel), cls), "ConfigSchema")
    for st in schema.body:
        if isinstance(st, ast.AnnAssign) and ast.unparse(st.target) == field and isinstance(st.value, ast.Constant):
            return st.value.value
    raise ValueError(f"{cls}.ConfigSchema.{field} literal default not found")


DESTRUCTIVE = ("pop", "popitem", "clear", "update", "setdefault", "remove", "extend", "append", "insert")


def _root_name(e: ast.AST):
    while isinstance(e, (ast.Subscript, ast.Attribute, ast.Call)):
        e = e.func if isinstance(e, ast.Call) else e.value
    return e.id if isinstance(e, ast.Name) else None


def _consumes_argument(fn: ast.FunctionDef) -> List[str]:
    """Statements of a loader function that change the mapping it was GIVEN: a destructive method call, `del`, or an item
    assignment whose receiver is rooted at a parameter that has not been re-bound (e.g. `config = dict(config)`) earlier in
    the function body (statement order)."""
    params = {a.arg for a in fn.args.args + fn.args.kwonlyargs} - {"self", "cls"}
    out = []

    def visit(stmts, live):
        live = set(live)
        for st in stmts:
            for node in ast.walk(st):
                if isinstance(node, ast.Call) and isinstance(node.func, ast.Attribute) and node.func.attr in DESTRUCTIVE \
                        and _root_name(node.func.value) in live:
                    out.append(ast.unparse(node))
                if isinstance(node, ast.Delete):
                    for t in node.targets:
                        if _root_name(t) in live:
                            out.append(ast.unparse(node))
                if isinstance(node, (ast.Assign, ast.AugAssign)):
                    for t in (node.targets if isinstance(node, ast.Assign) else [node.target]):
                        if isinstance(t, ast.Subscript) and _root_name(t) in live:
                            out.append(ast.unparse(node))
            if isinstance(st, ast.Assign):
                for t in st.targets:
                    if isinstance(t, ast.Name):
                        live.discard(t.id)
        return live

    visit(fn.body, params)
    return out


SOFTWARE_DIRS = ["simulator/system/services", "simulator/system/applications"]


def _software_inits(with_guarded: bool = False):
    """Every `__init__` of a software class: (class, attribute, option) for each plain application of a configured option
    (`self.attr = self.config.opt`, optionally through one constructor call and / or under `if self.config.opt is not None`),
    and (class, statement) for every OTHER statement that mentions `self.config` (a loop, a method call fed with configured
    values, a test of anything but the option itself): those make the option's effect depend on what else is true when the
    software is constructed."""
    from harness.lib.core import SRC
    applied, guarded, other = [], [], []
    files = [SRC / "simulator/system/software.py"]
    for d in SOFTWARE_DIRS:
        files += sorted((SRC / d).rglob("*.py"))

    def cfg_opts(e: ast.AST) -> List[str]:
        return [n.attr for n in ast.walk(e) if isinstance(n, ast.Attribute) and isinstance(n.value, ast.Attribute)
                and n.value.attr == "config" and isinstance(n.value.value, ast.Name) and n.value.value.id == "self"]

    def plain_value(v: ast.AST) -> bool:
        if isinstance(v, ast.Call) and len(v.args) == 1 and not v.keywords and isinstance(v.func, ast.Name):
            v = v.args[0]
        return isinstance(v, ast.Attribute) and len(cfg_opts(v)) == 1 and ast.unparse(v) == f"self.config.{v.attr}"

    def handle(cls: str, st: ast.stmt, guarded_by=None, own_state_guard=False):
        if not cfg_opts(st):
            return
        if isinstance(st, ast.Assign) and len(st.targets) == 1 and isinstance(st.targets[0], ast.Attribute) \
                and ast.unparse(st.targets[0].value) == "self" and plain_value(st.value):
            opt = cfg_opts(st.value)[0]
            if guarded_by in (None, opt):
                (guarded if own_state_guard else applied).append((cls, st.targets[0].attr, opt))
                return
        if isinstance(st, ast.If) and not st.orelse and guarded_by is None:
            t = ast.unparse(st.test)
            o = cfg_opts(st.test)
            if len(o) == 1 and t == f"self.config.{o[0]} is not None":
                for sub in st.body:
                    handle(cls, sub, guarded_by=o[0])
                return
            if not o and "operating_state" not in t and not any(isinstance(n, ast.Call) for n in ast.walk(st.test)):
                # a test of the object's own fresh attributes (e.g. the starting health just assigned), no call
                for sub in st.body:
                    handle(cls, sub, guarded_by=None, own_state_guard=True)
                return
        other.append((cls, ast.unparse(st).split("\n")[0][:160]))

    for f in files:
        tree = ast.parse(f.read_text())
        for c in [n for n in ast.walk(tree) if isinstance(n, ast.ClassDef)]:
            for m in c.body:
                if isinstance(m, ast.FunctionDef) and m.name == "__init__":
                    for st in m.body:
                        handle(c.name, st)
    if with_guarded:
        return sorted(applied), sorted(guarded), sorted(other)
    return sorted(applied + guarded), sorted(other)


def _outer_sources() -> List[Tuple[str, str, str]]:
    """Options of a software entry that also have a source outside the entry: every `install()` hook of a software class of the
    shape `if self.parent and not self.<opt>: self.config.<opt> = <outer>` -> (software name, option, outer expression). Any
    other statement of an `install()` hook that writes `self.config` raises (the precedence would not be inner-first)."""
    from harness.lib.core import SRC
    out = []
    files = []
    for d in SOFTWARE_DIRS:
        files += sorted((SRC / d).rglob("*.py"))
    for f in files:
        for c in [n for n in ast.walk(ast.parse(f.read_text())) if isinstance(n, ast.ClassDef)]:
            disc = next((k.value.value for k in c.keywords if k.arg == "discriminator" and isinstance(k.value, ast.Constant)), None)
            for m in c.body:
                if not (isinstance(m, ast.FunctionDef) and m.name == "install"):
                    continue
                for st in ast.walk(m):
                    if isinstance(st, ast.Assign) and ast.unparse(st.targets[0]).startswith("self.config."):
                        opt = ast.unparse(st.targets[0])[len("self.config."):]
                        guard = next((g for g in ast.walk(m) if isinstance(g, ast.If) and st in g.body), None)
                        if guard is None or ast.unparse(guard.test) != f"self.parent and (not self.{opt})":
                            raise ValueError(f"{c.name}.install writes config.{opt} outside the inner-first guard: "
                                             f"{ast.unparse(guard.test) if guard else 'unguarded'}")
                        out.append((disc or c.name, opt, ast.unparse(st.value)))
    return sorted(out)


def _software_chains() -> List[Tuple[str, List[str]]]:
    """software name (the class's `discriminator=`) -> the classes whose constructors run when it is built, base class first:
    the chain of first bases that are themselves classes of the software packages, up to `Software`."""
    from harness.lib.core import SRC
    files = [SRC / "simulator/system/software.py"]
    for d in SOFTWARE_DIRS:
        files += sorted((SRC / d).rglob("*.py"))
    classes = {}
    for f in files:
        for c in [n for n in ast.walk(ast.parse(f.read_text())) if isinstance(n, ast.ClassDef)]:
            disc = next((k.value.value for k in c.keywords if k.arg == "discriminator" and isinstance(k.value, ast.Constant)), None)
            classes[c.name] = ([ast.unparse(b) for b in c.bases], disc)
    out = []
    for name, (bases, disc) in classes.items():
        if not disc:
            continue
        chain = [name]
        cur = name
        while cur != "Software":
            nxt = next((b for b in classes[cur][0] if b in classes), None)
            if nxt is None:
                raise ValueError(f"software class {name}: base chain leaves the software packages at {cur}")
            chain.append(nxt)
            cur = nxt
        out.append((disc, list(reversed(chain))))
    return sorted(out)


def emit() -> str:
    sites: List[Tuple[str, str]] = []
    unknown_lists = []
    for rel, cls, fn in LOADER_FUNCTIONS:
        tree = parse(rel)
        f = find_method(class_def(tree, cls), fn)
        for s in _iter_sites(f):
            if s.startswith("LIST:"):
                if s[5:].replace('"', "'") not in KNOWN_LISTS:
                    unknown_lists.append(f"{cls}.{fn}: {s[5:]}")
                continue
            sites.append((f"{cls}.{fn}", s.replace('"', "'")))
    if unknown_lists:
        raise ValueError("iteration over a value not known to be a list: " + "; ".join(unknown_lists))
    # constants
    init = parse("__init__.py")
    bw = None
    for st in init.body:
        if isinstance(st, ast.AnnAssign) and ast.unparse(st.target) == "DEFAULT_BANDWIDTH":
            bw = st.value.value
    if not isinstance(bw, int):
        raise ValueError("DEFAULT_BANDWIDTH literal not found")
    game_fc = find_method(class_def(parse("game/game.py"), "PrimaiteGame"), "from_config")
    # the library's start-up / shut-down duration = what the TRANSLATED statements of from_config (config_resolve: symbolic slice of the
    # writes of new_node.config.start_up_duration / shut_down_duration) leave when neither the node entry nor the defaults section
    # has the key - whatever the shape of those statements; if they leave the constructor's value, the schema field's default
    from harness.extract import config_resolve as _xr   # (imported here: config_resolve imports LOADER_FUNCTIONS from this module)
    _sl = _xr.slices()
    durs = {}
    for key, site in (("start_up_duration", "nodeStartUp"), ("shut_down_duration", "nodeShutDown")):
        sentinel = object()
        v = _xr.evaluate(_sl[site]["expr"], own=_xr.ABSENT, dflt=_xr.ABSENT, init=sentinel)
        if v is sentinel:
            v = _field_default("simulator/network/hardware/base.py", "Node", key)
        if not isinstance(v, int) or isinstance(v, bool):
            raise ValueError(f"{key}: the loader statements leave {v!r} when no source has the key")
        durs[key] = v
    # the defaults section: key tested == key read
    defaults_ok = True
    for node in ast.walk(game_fc):
        if isinstance(node, ast.If) and isinstance(node.test, ast.Compare) and len(node.test.ops) == 1 and isinstance(node.test.ops[0], ast.In) \
                and ast.unparse(node.test.comparators[0]) == "defaults_config" and isinstance(node.test.left, ast.Constant):
            tested = node.test.left.value
            for sub in ast.walk(node):
                if isinstance(sub, ast.Subscript) and ast.unparse(sub.value) == "defaults_config" and isinstance(sub.slice, ast.Constant):
                    if sub.slice.value != tested:
                        defaults_ok = False
    router_ports = _field_default("simulator/network/hardware/nodes/network/router.py", "Router", "num_ports")
    switch_ports = _field_default("simulator/network/hardware/nodes/network/switch.py", "Switch", "num_ports")
    fw_ports = _field_default("simulator/network/hardware/nodes/network/firewall.py", "Firewall", "num_ports")
    host_sys = _system_software("simulator/network/hardware/nodes/host/host_node.py", "HostNode")
    comp_sys = _system_software("simulator/network/hardware/nodes/host/computer.py", "Computer")
    router_sys = _system_software("simulator/network/hardware/nodes/network/router.py", "Router")
    # firewall ACL implicit actions
    fw = class_def(parse("simulator/network/hardware/nodes/network/firewall.py"), "Firewall")
    fw_acls = []
    for st in fw.body:
        if isinstance(st, ast.AnnAssign) and ast.unparse(st.annotation) == "AccessControlList":
            src = ast.unparse(st.value)
            act = "PERMIT" if "ACLAction.PERMIT" in src else ("DENY" if "ACLAction.DENY" in src else None)
            if act is None:
                raise ValueError(f"implicit action of {ast.unparse(st.target)} not recognised")
            fw_acls.append((ast.unparse(st.target), act))
    # which firewall ACL names are read with [...] (mandatory) and which with .get (optional) in Firewall.from_config
    ffc = find_method(fw, "from_config")
    mandatory, optional = [], []
    for node in ast.walk(ffc):
        if isinstance(node, ast.If):
            t = node.test
            if isinstance(t, ast.Subscript) and ast.unparse(t.value) == "config['acl']" and isinstance(t.slice, ast.Constant):
                mandatory.append(t.slice.value)
            if isinstance(t, ast.Call) and ast.unparse(t.func) == "config['acl'].get" and isinstance(t.args[0], ast.Constant):
                optional.append(t.args[0].value)
    # default rules of Router._set_default_acl
    sda = find_method(class_def(parse("simulator/network/hardware/nodes/network/router.py"), "Router"), "_set_default_acl")
    default_positions = sorted(kw.value.value for node in ast.walk(sda) if isinstance(node, ast.Call) for kw in node.keywords
                               if kw.arg == "position" and isinstance(kw.value, ast.Constant))
    # EpisodeListScheduler.__call__
    call = find_method(class_def(parse("session/episode_schedule.py"), "EpisodeListScheduler"), "__call__")
    src = ast.unparse(call)
    wraps = "episode_num = episode_num % len(self.schedule)" in src and "if episode_num >= len(self.schedule)" in src
    order = "[self.episode_data[fn] for fn in filenames_to_join] + [self.base_scenario]" in src
    by_key = "filenames_to_join = self.schedule[episode_num]" in src
    # SoftwareManager.install / uninstall (F-22, repaired): who writes the class map the guard reads, what the guard refuses,
    # and whether an installed namesake is uninstalled before the new instance is registered anywhere
    sm_src = (parse("simulator/system/core/software_manager.py"))
    writes = [n for n in ast.walk(sm_src) if isinstance(n, ast.Subscript) and isinstance(n.ctx, ast.Store)
              and ast.unparse(n.value) == "self._software_class_to_name_map"]
    smc = class_def(sm_src, "SoftwareManager")
    inst, uninst = find_method(smc, "install"), find_method(smc, "uninstall")
    body = [st for st in inst.body if not (isinstance(st, ast.Expr) and isinstance(st.value, ast.Constant))]
    guard_only_bare = (isinstance(body[0], ast.If)
                       and ast.unparse(body[0].test) == "software_class in self._software_class_to_name_map and software_config is None"
                       and isinstance(body[0].body[-1], ast.Return) and not body[0].orelse)
    # position of the replace statement and of the first registration statement among the top-level statements of install
    def _is_replace(st):
        return (isinstance(st, ast.If) and ast.unparse(st.test) == "software.name in self.software" and not st.orelse
                and any(isinstance(x, ast.Expr) and ast.unparse(x.value) == "self.uninstall(software.name)" for x in st.body))
    REGISTER = ("self.node.applications[software.uuid] = software", "self.node.services[software.uuid] = software",
                "self.software[software.name] = software", "self.port_protocol_mapping[software.port, software.protocol] = software",
                "self._software_class_to_name_map[software_class] = software.name")
    def _registers(st):
        return any(ast.unparse(x) in REGISTER for x in ast.walk(st) if isinstance(x, ast.Assign))
    i_rep = [i for i, st in enumerate(body) if _is_replace(st)]
    i_reg = [i for i, st in enumerate(body) if _registers(st)]
    n_reg = sum(1 for x in ast.walk(inst) if isinstance(x, ast.Assign) and ast.unparse(x) in REGISTER)
    replaces_first = len(i_rep) == 1 and bool(i_reg) and i_rep[0] < min(i_reg) and n_reg == len(REGISTER)
    un_src = ast.unparse(uninst)
    uninstall_clears = ("self._software_class_to_name_map.pop(key)" in un_src and "self.software.pop(software_name)" in un_src
                        and "self.node.applications.pop(software.uuid)" in un_src and "self.node.services.pop(software.uuid)" in un_src
                        and "self.port_protocol_mapping.pop(key)" in un_src
                        and "self.node._application_request_manager.remove_request(software.name)" in un_src
                        and "self.node._service_request_manager.remove_request(software.name)" in un_src)
    # the scheduler hands out a FRESH object on every call: `__call__` parses the joined text itself and returns that very value;
    # nothing is stored on the instance or the class; the class has no field beyond the four it documents
    sched_cls = class_def(parse("session/episode_schedule.py"), "EpisodeListScheduler")
    rets = [n for n in ast.walk(call) if isinstance(n, ast.Return)]
    parsed_here = [n for n in ast.walk(call) if isinstance(n, ast.Assign) and len(n.targets) == 1
                   and isinstance(n.targets[0], ast.Name) and ast.unparse(n.value) == "yaml.safe_load(joined_yaml)"]
    stores = [ast.unparse(n) for n in ast.walk(call) if isinstance(n, (ast.Assign, ast.AugAssign, ast.AnnAssign))
              for t in (n.targets if isinstance(n, ast.Assign) else [n.target])
              if _root_name(t) in ("self", "cls", "EpisodeListScheduler") and ast.unparse(t) != "self._exceeded_episode_list"]
    calls_on_self = [ast.unparse(n) for n in ast.walk(call) if isinstance(n, ast.Call) and isinstance(n.func, ast.Attribute)
                     and n.func.attr in DESTRUCTIVE and _root_name(n.func.value) in ("self", "cls")]
    fresh = (len(rets) == 1 and isinstance(rets[0].value, ast.Name) and len(parsed_here) == 1
             and parsed_here[0].targets[0].id == rets[0].value.id and not stores and not calls_on_self)
    sched_fields = [ast.unparse(st.target) for st in sched_cls.body if isinstance(st, ast.AnnAssign)] + \
                   [ast.unparse(t) for st in sched_cls.body if isinstance(st, ast.Assign) for t in st.targets]
    const_call = find_method(class_def(parse("session/episode_schedule.py"), "ConstantEpisodeScheduler"), "__call__")
    const_rets = [n for n in ast.walk(const_call) if isinstance(n, ast.Return)]
    const_copies = len(const_rets) == 1 and ast.unparse(const_rets[0].value) == "copy.deepcopy(self.config)"
    # loaders that consume the mapping they are given
    consumed = []
    for rel, cls, fn in LOADER_FUNCTIONS:
        f = find_method(class_def(parse(rel), cls), fn)
        consumed += [(f"{cls}.{fn}", x.replace('"', "'")) for x in _consumes_argument(f)]
    sw_applied, sw_guarded, sw_other = _software_inits(with_guarded=True)
    sw_chains = _software_chains()
    # airspace: registered frequencies and the access point's default one
    air = parse("simulator/network/airspace.py")
    freqs, freq_consts = [], {}
    for st in air.body:
        if isinstance(st, ast.Assign) and isinstance(st.value, ast.Call) and ast.unparse(st.value.func) == "AirSpaceFrequency":
            kw = {k.arg: k.value.value for k in st.value.keywords if isinstance(k.value, ast.Constant)}
            if "name" not in kw or "data_rate_bps" not in kw or float(kw["data_rate_bps"]) != int(kw["data_rate_bps"]):
                raise ValueError("AirSpaceFrequency registration not recognised")
            freqs.append((kw["name"], int(kw["data_rate_bps"])))
            freq_consts[ast.unparse(st.targets[0])] = kw["name"]
    wni = class_def(air, "WirelessNetworkInterface")
    dflt_freq = [freq_consts.get(ast.unparse(st.value)) for st in wni.body if isinstance(st, ast.AnnAssign) and ast.unparse(st.target) == "frequency"]
    cap_src = ast.unparse(find_method(class_def(air, "AirSpace"), "set_frequency_max_capacity_mbps"))
    cap_shape = "self.frequencies[freq].data_rate_bps = mbps * 1024 * 1024" in cap_src
    # wireless router: port 1 = access point, port 2 = router interface; every section its from_config applies
    wr = class_def(parse("simulator/network/hardware/nodes/network/wireless_router.py"), "WirelessRouter")
    wr_ports = [ast.unparse(n.args[0].func) for n in ast.walk(find_method(wr, "__init__"))
                if isinstance(n, ast.Call) and ast.unparse(n.func) == "self.connect_nic"]
    wr_fc = ast.unparse(find_method(wr, "from_config"))
    wr_sections = [k for k in ("router_interface", "wireless_access_point", "acl", "routes", "default_route", "operating_state") if f"'{k}'" in wr_fc]
    # the defaults section: every key the loader looks for and what it does with it
    landing = []
    for node in ast.walk(game_fc):
        if isinstance(node, ast.If):
            for cmp_ in [node.test] + (list(node.test.values) if isinstance(node.test, ast.BoolOp) else []):
                if isinstance(cmp_, ast.Compare) and len(cmp_.ops) == 1 and isinstance(cmp_.ops[0], ast.In) \
                        and ast.unparse(cmp_.comparators[0]) == "defaults_config" and isinstance(cmp_.left, ast.Constant):
                    for sub in node.body:
                        landing.append((cmp_.left.value, ast.unparse(node.test).replace('"', "'"), ast.unparse(sub).split("\n")[0].replace('"', "'")[:120]))
        if isinstance(node, ast.Call) and ast.unparse(node.func) == "defaults_config.get" and isinstance(node.args[0], ast.Constant):
            landing.append((node.args[0].value, "get", ast.unparse(node).replace('"', "'")))
    landing = sorted(set(landing))
    # ACL rule loops: the address keys they read (shipped spelling first, documented spelling as fallback)
    acl_keys = []
    for rel, cls in (("simulator/network/hardware/nodes/network/router.py", "Router"), ("simulator/network/hardware/nodes/network/firewall.py", "Firewall"),
                     ("simulator/network/hardware/nodes/network/wireless_router.py", "WirelessRouter")):
        fc = find_method(class_def(parse(rel), cls), "from_config")
        for call in [n for n in ast.walk(fc) if isinstance(n, ast.Call) and isinstance(n.func, ast.Attribute) and n.func.attr == "add_rule"]:
            kw = {k.arg: ast.unparse(k.value).replace('"', "'") for k in call.keywords}
            acl_keys.append((cls, kw.get("src_ip_address", "?"), kw.get("dst_ip_address", "?"), kw.get("src_wildcard_mask", "?"),
                             kw.get("dst_wildcard_mask", "?")))
    scan_default = _field_default("simulator/network/hardware/base.py", "Node", "node_scan_duration")
    opts_cls = class_def(parse("game/game.py"), "PrimaiteGameOptions")
    ep_len = [st.value.value for st in opts_cls.body if isinstance(st, ast.AnnAssign) and ast.unparse(st.target) == "max_episode_length"
              and isinstance(st.value, ast.Constant)]
    # OfficeLANAdder: constants, guards, name / address templates and the wiring calls, in source order
    cr = parse("simulator/network/creation.py")
    adder = class_def(cr, "OfficeLANAdder")
    add = find_method(adder, "add_nodes_to_net")
    eni = [n.value.value for n in ast.walk(add) if isinstance(n, ast.Assign) and ast.unparse(n.targets[0]) == "effective_network_interface"
           and isinstance(n.value, ast.Constant)]
    if len(eni) != 1:
        raise ValueError("effective_network_interface literal not found in OfficeLANAdder.add_nodes_to_net")
    sw_ports = [v.value for n in ast.walk(add) if isinstance(n, ast.Dict) for k, v in zip(n.keys, n.values)
                if isinstance(k, ast.Constant) and k.value == "num_ports" and isinstance(v, ast.Constant)]
    nosr = find_function(cr, "num_of_switches_required")
    max_if = [d.value for a, d in zip(nosr.args.args[-len(nosr.args.defaults):], nosr.args.defaults) if a.arg == "max_network_interface"]
    nosr_src = ast.unparse(nosr)
    if "effective_network_interface = max_network_interface - 1" not in nosr_src or \
            "full_switches = num_nodes // effective_network_interface" not in nosr_src or \
            "extra_pcs = num_nodes % effective_network_interface" not in nosr_src:
        raise ValueError("num_of_switches_required: shape not recognised")
    count_formula = ast.unparse([n for n in ast.walk(nosr) if isinstance(n, ast.Return)][-1].value)
    schema = class_def(adder, "ConfigSchema")
    val = find_method(schema, "check_ip_range")
    ip_test = [ast.unparse(n.test) for n in ast.walk(val) if isinstance(n, ast.If)]
    ip_limit = [c.value for n in ast.walk(val) if isinstance(n, ast.If) for c in ast.walk(n.test) if isinstance(c, ast.Constant)]
    start_guard = [ast.unparse(n.test) for n in add.body if isinstance(n, ast.If) and "pcs_ip_block_start" in ast.unparse(n.test)]
    loop = [n for n in add.body if isinstance(n, ast.For)]
    if len(loop) != 1 or ast.unparse(loop[0].iter) != "range(1, config.num_pcs + 1)":
        raise ValueError("OfficeLANAdder: the computer loop is not `for i in range(1, config.num_pcs + 1)`")
    new_sw_test = [ast.unparse(n.test) for n in loop[0].body if isinstance(n, ast.If)]
    defaults = {ast.unparse(st.target): ast.unparse(st.value) for st in schema.body if isinstance(st, ast.AnnAssign) and st.value is not None}
    templates = [ast.unparse(n)[2:-1] for n in ast.walk(add) if isinstance(n, ast.JoinedStr)]
    templates = [t for t in templates if not t.startswith("pcs_ip_block_start must")]
    connects = [", ".join(ast.unparse(a) for a in n.args) + "".join(", " + k.arg + "=" + ast.unparse(k.value) for k in n.keywords)
                for n in ast.walk(add) if isinstance(n, ast.Call) and ast.unparse(n.func) == "network.connect"]
    # ast.walk is breadth-first: bring the calls into source order
    order = sorted(((n.lineno, n.col_offset), i) for i, n in enumerate(
        [n for n in ast.walk(add) if isinstance(n, ast.Call) and ast.unparse(n.func) == "network.connect"]))
    connects = [connects[i] for _, i in order]
    torder = sorted(((n.lineno, n.col_offset), i) for i, n in enumerate(
        [n for n in ast.walk(add) if isinstance(n, ast.JoinedStr) and not ast.unparse(n)[2:-1].startswith("pcs_ip_block_start must")]))
    templates = [templates[i] for _, i in torder]
    lines = ["namespace Primaite.Gen.Config",
             "/-- mapping-iteration sites in the loader functions: (function, iterated expression) -/",
             "def sites : List (String × String) := ["]
    lines += ["  (" + _lean_str(a) + ", " + _lean_str(b) + ")" + ("," if i < len(sites) - 1 else "") for i, (a, b) in enumerate(sites)]
    lines += ["]",
              f"def defaultBandwidth : Nat := {bw}",
              f"def defaultStartUp : Nat := {durs['start_up_duration']}",
              f"def defaultShutDown : Nat := {durs['shut_down_duration']}",
              f"def routerPorts : Nat := {router_ports}", f"def switchPorts : Nat := {switch_ports}", f"def firewallExtraPorts : Nat := {fw_ports}",
              "def hostSystemKeys : List String := [" + ", ".join(_lean_str(k) for k in host_sys) + "]",
              "def computerSystemKeys : List String := [" + ", ".join(_lean_str(k) for k in comp_sys) + "]",
              "def routerSystemKeys : List String := [" + ", ".join(_lean_str(k) for k in router_sys) + "]",
              "def firewallAcls : List (String × String) := [" + ", ".join(f"({_lean_str(a)}, {_lean_str(b)})" for a, b in fw_acls) + "]",
              "def firewallAclMandatory : List String := [" + ", ".join(_lean_str(k) for k in mandatory) + "]",
              "def firewallAclOptional : List String := [" + ", ".join(_lean_str(k) for k in optional) + "]",
              "def routerDefaultRulePositions : List Nat := [" + ", ".join(str(p) for p in default_positions) + "]",
              f"def defaultsKeysConsistent : Bool := {'true' if defaults_ok else 'false'}",
              f"def scheduleWrapsModLen : Bool := {'true' if wraps else 'false'}",
              f"def scheduleVariantsThenBase : Bool := {'true' if order else 'false'}",
              f"def scheduleReadByKey : Bool := {'true' if by_key else 'false'}",
              f"def installGuardMapWrites : Nat := {len(writes)}",
              f"def installGuardOnlyBare : Bool := {'true' if guard_only_bare else 'false'}",
              f"def installReplacesNamesakeFirst : Bool := {'true' if replaces_first else 'false'}",
              f"def uninstallClearsClassMap : Bool := {'true' if uninstall_clears else 'false'}",
              f"def scheduleFreshPerCall : Bool := {'true' if fresh else 'false'}",
              "def scheduleClassFields : List String := [" + ", ".join(_lean_str(k) for k in sched_fields) + "]",
              f"def constantSchedulerCopies : Bool := {'true' if const_copies else 'false'}",
              "/-- statements of loader functions that change the mapping they were given -/",
              "def loaderConsumesArgument : List (String × String) := [" + ", ".join(f"({_lean_str(a)}, {_lean_str(b)})" for a, b in consumed) + "]",
              "/-- (software, option, outer source): install hooks that fill an option from outside the entry when the entry gives none -/",
              "def optionOuterSources : List (String × String × String) := [" + ", ".join(
                  "(" + ", ".join(_lean_str(x) for x in t) + ")" for t in _outer_sources()) + "]",
              "/-- software name → constructor chain, base class first -/",
              "def softwareChains : List (String × List String) := [" + ", ".join(
                  f"({_lean_str(n)}, [" + ", ".join(_lean_str(c) for c in ch) + "])" for n, ch in sw_chains) + "]",
              "def softwareInitGuardedApplies : List (String × String × String) := [" + ", ".join(
                  "(" + ", ".join(_lean_str(x) for x in t) + ")" for t in sw_guarded) + "]",
              "def airspaceFrequencies : List (String × String) := [" + ", ".join(f"({_lean_str(n)}, {_lean_str(str(v))})" for n, v in freqs) + "]",
              f"def wirelessDefaultFrequency : String := {_lean_str(dflt_freq[0] if len(dflt_freq) == 1 and dflt_freq[0] else '?')}",
              f"def airspaceCapacityInMbps : Bool := {'true' if cap_shape else 'false'}",
              "def wirelessRouterPorts : List String := [" + ", ".join(_lean_str(x) for x in wr_ports) + "]",
              "def wirelessRouterSections : List String := [" + ", ".join(_lean_str(x) for x in wr_sections) + "]",
              "def defaultsLanding : List (String × String × String) := [",
              *["  (" + ", ".join(_lean_str(x) for x in t) + ")" + ("," if i < len(landing) - 1 else "") for i, t in enumerate(landing)],
              "]",
              "def aclAddressKeys : List (String × String × String × String × String) := [",
              *["  (" + ", ".join(_lean_str(x) for x in t) + ")" + ("," if i < len(acl_keys) - 1 else "") for i, t in enumerate(acl_keys)],
              "]",
              f"def nodeScanDefault : Nat := {scan_default}",
              f"def episodeLengthDefault : Nat := {ep_len[0] if len(ep_len) == 1 else 0}",
              "/-- software constructors: (class, live attribute, option) applied unconditionally -/",
              "def softwareInitApplies : List (String × String × String) := ["]
    lines += ["  (" + ", ".join(_lean_str(x) for x in t) + ")" + ("," if i < len(sw_applied) - 1 else "") for i, t in enumerate(sw_applied)]
    lines += ["]",
              "/-- software constructors: every other statement that mentions a configured option -/",
              "def softwareInitOtherConfigUses : List (String × String) := [" + ", ".join(f"({_lean_str(a)}, {_lean_str(b)})" for a, b in sw_other) + "]",
              f"def officePcsPerSwitch : Nat := {eni[0]}",
              "def officeSwitchPorts : List Nat := [" + ", ".join(str(x) for x in sw_ports) + "]",
              f"def officeMaxInterfaceDefault : Nat := {max_if[0] if max_if else 0}",
              f"def officeIpLimit : Nat := {ip_limit[0] if len(ip_limit) == 1 else 0}",
              f"def officeIpRangeTest : String := {_lean_str(ip_test[0] if len(ip_test) == 1 else '?')}",
              f"def officeStartGuard : String := {_lean_str(start_guard[0] if len(start_guard) == 1 else '?')}",
              f"def officeNewSwitchTest : String := {_lean_str(new_sw_test[0] if len(new_sw_test) == 1 else '?')}",
              f"def officeDefaults : String × String := ({_lean_str(defaults.get('include_router', '?'))}, {_lean_str(defaults.get('bandwidth', '?'))})",
              "def officeTemplates : List String := [" + ", ".join(_lean_str(t) for t in templates) + "]",
              "def officeConnects : List String := [" + ", ".join(_lean_str(t) for t in connects) + "]",
              f"def officeSwitchCountFormula : String := {_lean_str(count_formula)}",
              "end Primaite.Gen.Config", ""]
    return "\n".join(lines)
