"""Statement-by-statement translation of the Folder methods that carry C15's repairs (`restore_file`, `add_file`) into
Lean definitions over the model's types (Gen/FileSystemMethods.lean). Props/C15Api.lean proves them EQUAL to the model's
functions for all inputs (`C15_gen_restore_file`, `C15_gen_add_file`), so a harmless refactor (renamed local, reordered
independent statements that still translate to an equal function, reworded log message, comments) keeps the obligation,
while a semantic edit breaks the proof and a statement outside the vocabulary breaks the extractor.

Vocabulary (strict; anything else raises Unsupported):
    X = self.get_file(N[, include_deleted=True])         let X := g.getFile N incl            (X : Option File)
    if not X: return False                               match X with | none => (g, false) | some X => …
    if <type guard on file>: raise …                     skipped (the model's input is typed)
    if <cond>: raise …                                   if cond then none else …
    if X is not None and X.uuid != Y.uuid: self.remove_file(X)
                                                         let g := match X with | some e => if e.id != Y.id then g.removeFile e else g | none => g
    X.restore()                                          let X := X.restore
    self.files[X.uuid] = X                               let g := { g with files := dictSet File.id g.files X }
    self.deleted_files.pop(X.uuid, None)                 let g := { g with deletedFiles := dictPop File.id g.deletedFiles X.id }
    self._file_request_manager.add_request(X.name, RequestType(func=X._request_manager))
                                                         let g := { g with fileRoutes := (X.name, X.id) :: g.fileRoutes }
    X.folder = self                                      skipped (back reference, not part of the structure)
    return True / fall off the end                       (g, true) / some g
    self._helper(X)     (second shift of round 7)        the body of the PRIVATE Folder method `_helper(self, p)` is translated in place
                                                         (`let g := (let p := X; …; g)`): extracting a helper out of a translated method, or
                                                         calling it from the restore loop, keeps the translation (and the theorems decide)
Logging statements and docstrings are dropped first (as in extract/filesystem.py)."""
import ast
import json
from typing import List

from harness.extract.filesystem import FOLDER, _is_syslog
from harness.extract.util import class_def, find_method, parse

GEN_NAME = "FileSystemMethods"


class Unsupported(Exception):
    pass


def _u(n: ast.AST) -> str:
    return ast.unparse(n)


def _expr(e: ast.AST) -> str:
    """Value expressions: parameter / local names, `.name`, `.uuid`."""
    if isinstance(e, ast.Name):
        return e.id
    if isinstance(e, ast.Attribute) and isinstance(e.value, ast.Name) and e.attr in ("name", "uuid"):
        return f"{e.value.id}.{'id' if e.attr == 'uuid' else 'name'}"
    raise Unsupported("expression " + _u(e))


def _get_file(call: ast.AST) -> str:
    if not (isinstance(call, ast.Call) and _u(call.func) == "self.get_file"):
        raise Unsupported("call " + _u(call))
    kws = {k.arg: k.value for k in call.keywords}
    name = kws.get("file_name", call.args[0] if call.args else None)
    incl = kws.get("include_deleted")
    if name is None or (incl is not None and not isinstance(incl, ast.Constant)):
        raise Unsupported("get_file arguments " + _u(call))
    return f"(g.getFile {_expr(name)} {'true' if incl is not None and incl.value else 'false'})"


def _cond(e: ast.AST) -> str:
    if isinstance(e, ast.BoolOp):
        op = " && " if isinstance(e.op, ast.And) else " || "
        return "(" + op.join(_cond(v) for v in e.values) + ")"
    if isinstance(e, ast.UnaryOp) and isinstance(e.op, ast.Not):
        return f"(!{_cond(e.operand)})"
    if isinstance(e, ast.Name) and e.id == "force":
        return "force"
    if isinstance(e, ast.Compare) and len(e.ops) == 1:
        l, r, op = e.left, e.comparators[0], e.ops[0]
        if isinstance(op, ast.IsNot) and isinstance(r, ast.Constant) and r.value is None:
            return f"({_get_file(l)}).isSome"
        if isinstance(op, ast.In) and _u(r) == "self.files" and isinstance(l, ast.Attribute) and l.attr == "uuid":
            return f"(g.files.any (fun y => y.id == {_expr(l)}))"
    raise Unsupported("condition " + _u(e))


def _is_type_guard(test: ast.AST) -> bool:
    return _u(test) in ("file is None or not isinstance(file, File)",)


_FOLDER_CLS = {"cls": None}      # set by emit(): the class the private helpers are looked up in
_INLINED: dict = {}              # helper name -> number of call sites translated in place (read by extract/filesystem.py)
_INLINE_STACK: List[str] = []
NOT_HELPERS = {"restore_file", "add_file", "remove_file", "get_file", "get_file_by_id", "remove_file_by_id", "remove_file_by_name",
               "remove_all_files", "delete", "restore"}


def _helper_call(c: ast.Call):
    """`self._h(X)` / `self._h(p=X)` where `_h(self, p)` is a private method of Folder that returns nothing: (FunctionDef, X) or None."""
    cls = _FOLDER_CLS["cls"]
    if cls is None or not (isinstance(c.func, ast.Attribute) and _u(c.func.value) == "self"):
        return None
    name = c.func.attr
    if not name.startswith("_") or name.startswith("__") or name in NOT_HELPERS:
        return None
    fns = [n for n in cls.body if isinstance(n, ast.FunctionDef) and n.name == name]
    if len(fns) != 1:
        return None
    fn = fns[0]
    a = fn.args
    if fn.decorator_list or a.vararg or a.kwarg or a.kwonlyargs or a.defaults or len(a.args) != 2 or a.args[0].arg != "self":
        return None
    if any(isinstance(n, ast.Return) and n.value is not None and not (isinstance(n.value, ast.Constant) and n.value.value is None)
           for n in ast.walk(fn)):
        return None
    arg = c.args[0] if (len(c.args) == 1 and not c.keywords) else (
        c.keywords[0].value if (not c.args and len(c.keywords) == 1 and c.keywords[0].arg == a.args[1].arg) else None)
    if not isinstance(arg, ast.Name):
        return None
    return fn, arg.id


def _inline(fn: ast.FunctionDef, x: str, ind: int) -> str:
    """The body of helper `fn(self, p)` on the folder `g` with p := x, as a Lean term of type Folder (indented block, no parentheses)."""
    if fn.name in _INLINE_STACK:
        raise Unsupported("recursive helper " + fn.name)
    _INLINE_STACK.append(fn.name)
    try:
        p = fn.args.args[1].arg
        pad = "  " * ind
        head = "" if p == x else pad + f"let {p} := {x}\n"
        body = head + _stmts(_clean(fn), set(), "unit", ind)
    finally:
        _INLINE_STACK.pop()
    _INLINED[fn.name] = _INLINED.get(fn.name, 0) + 1
    return body


def _stmts(body: List[ast.stmt], opt: set, bool_result, ind: int) -> str:
    """bool_result: True (answers a bool: Folder × Bool), False (may raise: Option Folder), "unit" (a helper: Folder)."""
    pad = "  " * ind
    unit = bool_result == "unit"
    if not body:
        if unit:
            return pad + "g"
        if bool_result:
            raise Unsupported("bool method falls off the end")
        return pad + "some g"
    st, rest = body[0], body[1:]
    if isinstance(st, ast.Return):
        if unit:
            if st.value is None or (isinstance(st.value, ast.Constant) and st.value.value is None):
                return pad + "g"
            raise Unsupported("return " + _u(st))
        if not (bool_result and isinstance(st.value, ast.Constant) and isinstance(st.value.value, bool)):
            raise Unsupported("return " + _u(st))
        return pad + f"(g, {'true' if st.value.value else 'false'})"
    if isinstance(st, ast.Assign) and len(st.targets) == 1:
        tgt = st.targets[0]
        if isinstance(tgt, ast.Name):
            return pad + f"let {tgt.id} := {_get_file(st.value)}\n" + _stmts(rest, opt | {tgt.id}, bool_result, ind)
        if isinstance(tgt, ast.Subscript) and _u(tgt.value) == "self.files" and _u(tgt.slice) == _u(st.value) + ".uuid":
            return pad + f"let g := {{ g with files := dictSet File.id g.files {_expr(st.value)} }}\n" + _stmts(rest, opt, bool_result, ind)
        if isinstance(tgt, ast.Attribute) and tgt.attr == "folder" and _u(st.value) == "self":
            return _stmts(rest, opt, bool_result, ind)
        raise Unsupported("assignment " + _u(st))
    if isinstance(st, ast.Expr) and isinstance(st.value, ast.Call):
        c = st.value
        f = _u(c.func)
        if isinstance(c.func, ast.Attribute) and isinstance(c.func.value, ast.Name) and c.func.attr == "restore" and not c.args:
            x = c.func.value.id
            if x in opt:
                raise Unsupported(f"{x}.restore() on a value that may be None")
            return pad + f"let {x} := {x}.restore\n" + _stmts(rest, opt, bool_result, ind)
        if f == "self.deleted_files.pop" and len(c.args) == 2 and _u(c.args[1]) == "None":
            return pad + f"let g := {{ g with deletedFiles := dictPop File.id g.deletedFiles {_expr(c.args[0])} }}\n" + _stmts(rest, opt, bool_result, ind)
        if f == "self._file_request_manager.add_request" and len(c.args) == 2:
            rt = c.args[1]
            if not (isinstance(rt, ast.Call) and _u(rt.func) == "RequestType" and len(rt.keywords) == 1 and rt.keywords[0].arg == "func"):
                raise Unsupported("route " + _u(st))
            owner = rt.keywords[0].value
            if not (isinstance(owner, ast.Attribute) and owner.attr == "_request_manager" and isinstance(c.args[0], ast.Attribute)
                    and c.args[0].attr == "name" and _u(c.args[0].value) == _u(owner.value)):
                raise Unsupported("route " + _u(st))
            x = _u(owner.value)
            return pad + f"let g := {{ g with fileRoutes := ({x}.name, {x}.id) :: g.fileRoutes }}\n" + _stmts(rest, opt, bool_result, ind)
        h = _helper_call(c)
        if h is not None:
            fn, x = h
            if x in opt:
                raise Unsupported(f"{fn.name}({x}) on a value that may be None")
            return pad + "let g := (\n" + _inline(fn, x, ind + 1) + ")\n" + _stmts(rest, opt, bool_result, ind)
        raise Unsupported("call " + _u(st))
    if isinstance(st, ast.If) and not st.orelse:
        inner = [s for s in st.body if not _is_syslog(s)]
        # `if not X: return False`
        if (isinstance(st.test, ast.UnaryOp) and isinstance(st.test.op, ast.Not) and isinstance(st.test.operand, ast.Name)
                and st.test.operand.id in opt and len(inner) == 1 and isinstance(inner[0], ast.Return)):
            x = st.test.operand.id
            return (pad + f"match {x} with\n" + pad + "| none => " + _stmts(inner, opt, bool_result, 0).strip() + "\n"
                    + pad + f"| some {x} =>\n" + _stmts(rest, opt - {x}, bool_result, ind + 1))
        if len(inner) == 1 and isinstance(inner[0], ast.Raise):
            if _is_type_guard(st.test):
                return _stmts(rest, opt, bool_result, ind)
            if bool_result:
                raise Unsupported("raise in a bool method")
            return pad + f"if {_cond(st.test)} then none else\n" + _stmts(rest, opt, bool_result, ind)
        # `if X is not None and X.uuid != Y.uuid: self.remove_file(X)`
        t = st.test
        if (isinstance(t, ast.BoolOp) and isinstance(t.op, ast.And) and len(t.values) == 2 and len(inner) == 1
                and isinstance(t.values[0], ast.Compare) and isinstance(t.values[0].ops[0], ast.IsNot)
                and isinstance(t.values[0].left, ast.Name) and t.values[0].left.id in opt
                and isinstance(t.values[1], ast.Compare) and isinstance(t.values[1].ops[0], ast.NotEq)):
            x = t.values[0].left.id
            a, b = t.values[1].left, t.values[1].comparators[0]
            if _u(a) != f"{x}.uuid" or _u(inner[0]) != f"self.remove_file({x})":
                raise Unsupported("conditional " + _u(st))
            return (pad + f"let g := match {x} with\n{pad}  | some {x} => if {x}.id != {_expr(b)} then g.removeFile {x} else g\n{pad}  | none => g\n"
                    + _stmts(rest, opt, bool_result, ind))
        raise Unsupported("if " + _u(st.test))
    raise Unsupported("statement " + _u(st)[:80])


def _clean(fn: ast.FunctionDef) -> List[ast.stmt]:
    out = []
    for st in fn.body:
        if isinstance(st, ast.Expr) and isinstance(st.value, ast.Constant) and isinstance(st.value.value, str):
            continue
        if _is_syslog(st):
            continue
        out.append(st)
    return out


# ---------------------------------------------------------------------------------------------- record methods (round 4)
# Methods of File / Folder that touch only the object's own fields, translated onto `FileRec` / `FolderRec` (structure + health):
#     return True / False                                   (r, true) / (r, false)
#     self.deleted = True / False                           let r := { r with <item> := { r.<item> with deleted := … } }
#     self.health_status = FileSystemItemHealthStatus.X     let r := { r with health := .x }
#     self.visible_health_status = self.health_status | …X  let r := { r with visible := r.health | .x }
#     self.num_access += 1                                  let r := { r with acc := r.acc + 1 }                       (File)
#     self.restore_countdown = max(self.restore_duration, 1)  let r := { r with g := { r.g with restoreCountdown := max … 1 } }  (Folder)
#     if <cond>: … [elif/else: …]                           if … then T(body ++ rest) else T(orelse ++ rest)   (continuation passing:
#                                                           a branch that returns ends there; code after a `return` is dead)
#     cond: self.deleted | self.health_status == …X | self.health_status in [X, Y] | self.restore_countdown <= 0 | not / and / or
#     logging, docstrings, warnings.warn(...), `path = …` (string for the log)            skipped
HEALTH = "FileSystemItemHealthStatus."


def _health(e: ast.AST) -> str:
    u = _u(e)
    if not u.startswith(HEALTH):
        raise Unsupported("health value " + u)
    return "Health." + u[len(HEALTH):].lower()


def _rcond(e: ast.AST, item: str) -> str:
    if isinstance(e, ast.BoolOp):
        op = " && " if isinstance(e.op, ast.And) else " || "
        return "(" + op.join(_rcond(v, item) for v in e.values) + ")"
    if isinstance(e, ast.UnaryOp) and isinstance(e.op, ast.Not):
        return f"(!{_rcond(e.operand, item)})"
    u = _u(e)
    if u == "self.deleted":
        return f"r.{item}.deleted"
    if isinstance(e, ast.Compare) and len(e.ops) == 1:
        l, r, op = _u(e.left), e.comparators[0], e.ops[0]
        fld = {"self.health_status": "r.health", "self.visible_health_status": "r.visible"}.get(l)
        if fld and isinstance(op, ast.Eq):
            return f"({fld} == {_health(r)})"
        if fld and isinstance(op, ast.NotEq):
            return f"({fld} != {_health(r)})"
        if fld and isinstance(op, ast.In) and isinstance(r, ast.List):
            return "(" + " || ".join(f"{fld} == {_health(x)}" for x in r.elts) + ")"
        if item == "g" and l == "self.restore_countdown" and _u(r) == "0":
            sym = {ast.LtE: "≤", ast.GtE: "≥", ast.Eq: "=", ast.Lt: "<", ast.Gt: ">", ast.NotEq: "≠"}.get(type(op))
            if sym:
                return f"decide (r.g.restoreCountdown {sym} 0)"
    raise Unsupported("condition " + u)


def _rskip(st: ast.stmt) -> bool:
    if isinstance(st, ast.Expr) and isinstance(st.value, ast.Constant):
        return True
    if _is_syslog(st):
        return True
    if isinstance(st, ast.Expr) and isinstance(st.value, ast.Call) and _u(st.value.func) == "warnings.warn":
        return True
    if isinstance(st, ast.Assign) and len(st.targets) == 1 and isinstance(st.targets[0], ast.Name) and st.targets[0].id in ("path", "msg"):
        if any(isinstance(n, ast.Call) for n in ast.walk(st.value)):
            raise Unsupported("call inside a log string " + _u(st))
        return True
    return False


DICT_LEAN = {"self.files": "r.g.files", "self.deleted_files": "r.g.deletedFiles"}


def _dict_of(e: ast.AST, copies: dict):
    """A dictionary of files as (Lean list, is a snapshot taken before the loop): self.files / self.deleted_files (live), `X.copy()` / `dict(X)`
    (snapshot), a local bound to such a copy immediately before the loop."""
    u = _u(e)
    if u in DICT_LEAN:
        return DICT_LEAN[u], False
    if isinstance(e, ast.Name) and e.id in copies:
        return copies[e.id], True
    if isinstance(e, ast.Call) and not e.keywords:
        if isinstance(e.func, ast.Attribute) and e.func.attr == "copy" and not e.args:
            return _dict_of(e.func.value, copies)[0], True
        if _u(e.func) == "dict" and len(e.args) == 1:
            return _dict_of(e.args[0], copies)[0], True
    raise Unsupported("dictionary " + u)


def _iter_files(e: ast.AST, copies: dict):
    """What a `for` runs over, as (Lean list of File in iteration order, snapshot?, "values" | "items"). Semantic, order kept:
        D.values() | D.items()                     the dictionary's list (live view unless D is a copy)
        list(V) | tuple(V)                         snapshot of V
        [*V1, *V2, …]  |  V1 + V2 (both lists)     concatenation, evaluated BEFORE the loop (snapshot)
        itertools.chain(V1, V2) / chain(V1, V2)    concatenation, lazy: accepted only when every part is a snapshot"""
    if isinstance(e, ast.Call) and isinstance(e.func, ast.Attribute) and e.func.attr in ("values", "items") and not e.args and not e.keywords:
        lean, snap = _dict_of(e.func.value, copies)
        return lean, snap, e.func.attr
    if isinstance(e, ast.Call) and _u(e.func) in ("list", "tuple") and len(e.args) == 1 and not e.keywords:
        lean, _, kind = _iter_files(e.args[0], copies)
        return lean, True, kind
    parts = None
    lazy = False
    if isinstance(e, (ast.List, ast.Tuple)) and e.elts and all(isinstance(x, ast.Starred) for x in e.elts):
        parts = [x.value for x in e.elts]
    elif isinstance(e, ast.BinOp) and isinstance(e.op, ast.Add):
        parts = [e.left, e.right]
        for q in parts:   # `+` is defined on lists / tuples only, not on dict views
            if not (isinstance(q, (ast.List, ast.Tuple, ast.BinOp)) or (isinstance(q, ast.Call) and _u(q.func) in ("list", "tuple"))):
                raise Unsupported("operand of + is not a list: " + _u(q))
    elif isinstance(e, ast.Call) and _u(e.func) in ("itertools.chain", "chain") and e.args and not e.keywords:
        parts, lazy = list(e.args), True
    if parts is None:
        raise Unsupported("iteration over " + _u(e))
    sub = [_iter_files(q, copies) for q in parts]
    kinds = {k for _, _, k in sub}
    if len(kinds) != 1:
        raise Unsupported("mixed values()/items() in " + _u(e))
    if lazy and not all(sn for _, sn, _ in sub):
        raise Unsupported("lazy chain over a live dictionary view: " + _u(e))
    lean = sub[0][0] if len(sub) == 1 else "(" + " ++ ".join(l for l, _, _ in sub) + ")"
    return lean, True, kinds.pop()


def _restore_loop(st: ast.stmt, copies: dict, ind: int):
    """`for <file> in <files of the folder>: self.restore_file(file_name=<file>.name)`  or  `…: self._helper(<file>)` (translated in place)
    -> Lean `let r := { r with g := LIST.foldl (fun a file => …) r.g }`, or None when `st` is not such a loop."""
    if not (isinstance(st, ast.For) and not st.orelse and len(st.body) == 1):
        return None
    try:
        lean, snap, kind = _iter_files(st.iter, copies)
    except Unsupported:
        if any(_u(n) in DICT_LEAN for n in ast.walk(st.iter)):
            raise
        return None
    if kind == "items":
        if not (isinstance(st.target, ast.Tuple) and len(st.target.elts) == 2 and all(isinstance(x, ast.Name) for x in st.target.elts)):
            raise Unsupported("loop target " + _u(st.target))
        v = st.target.elts[1].id
    else:
        if not isinstance(st.target, ast.Name):
            raise Unsupported("loop target " + _u(st.target))
        v = st.target.id
    if not snap and lean != "r.g.files":
        # the body pops from deleted_files: Python raises `dictionary changed size during iteration`
        raise Unsupported("loop over a live view of deleted_files whose body restores: " + _u(st.iter))
    pad = "  " * ind
    b = st.body[0]
    if not (isinstance(b, ast.Expr) and isinstance(b.value, ast.Call)):
        raise Unsupported("loop body " + _u(b)[:80])
    c = b.value
    if _u(c.func) == "self.restore_file":
        arg = _lkw(c, "file_name", 0)
        if arg is None or _u(arg) != f"{v}.name" or len(c.args) + len(c.keywords) != 1:
            raise Unsupported("loop body " + _u(b)[:80])
        return pad + f"let r := {{ r with g := {lean}.foldl (fun (a : Folder) ({v} : File) => (a.restoreFile {v}.name).1) r.g }}\n"
    h = _helper_call(c)
    if h is not None and h[1] == v:
        return (pad + f"let loopBody := (fun (a : Folder) ({v} : File) =>\n{pad}    let g := a\n" + _inline(h[0], v, ind + 2) + ")\n"
                + pad + f"let r := {{ r with g := {lean}.foldl loopBody r.g }}\n")
    raise Unsupported("loop body " + _u(b)[:80])


def _rstmts(body: List[ast.stmt], item: str, ind: int, unit: bool = False) -> str:
    pad = "  " * ind
    body = [st for st in body if not _rskip(st)]
    if not body:
        if unit:
            return pad + "r"
        raise Unsupported("a method that answers falls off the end")
    st, rest = body[0], body[1:]
    if unit and item == "g":
        # the two loops of _restoring_timestep: over the live files, then over a COPY of the deleted ones taken before the loop
        lp = _restore_loop(st, {}, ind)
        if lp is not None:
            return lp + _rstmts(rest, item, ind, unit)
        if isinstance(st, ast.Assign) and len(st.targets) == 1 and isinstance(st.targets[0], ast.Name) and rest and isinstance(rest[0], ast.For):
            # a snapshot of a dictionary taken immediately before the loop that runs over it
            try:
                cp = _dict_of(st.value, {})
            except Unsupported:
                cp = None
            if cp is not None and cp[1]:
                lp = _restore_loop(rest[0], {st.targets[0].id: cp[0]}, ind)
                if lp is not None:
                    return lp + _rstmts(rest[1:], item, ind, unit)
        if isinstance(st, ast.AugAssign) and _u(st.target) == "self.restore_countdown" and isinstance(st.op, ast.Sub) and _u(st.value) == "1":
            return pad + "let r := { r with g := { r.g with restoreCountdown := r.g.restoreCountdown - 1 } }\n" + _rstmts(rest, item, ind, unit)
    if unit and isinstance(st, ast.If):
        return (pad + f"if {_rcond(st.test, item)} then\n" + _rstmts(list(st.body) + rest, item, ind + 1, unit) + "\n" + pad + "else\n"
                + _rstmts(list(st.orelse) + rest, item, ind + 1, unit))
    if unit and isinstance(st, ast.Assign) and len(st.targets) == 1:
        t, v = _u(st.targets[0]), st.value
        if t == "self.deleted" and isinstance(v, ast.Constant) and isinstance(v.value, bool):
            return pad + f"let r := {{ r with {item} := {{ r.{item} with deleted := {'true' if v.value else 'false'} }} }}\n" + _rstmts(rest, item, ind, unit)
        if t == "self.health_status":
            return pad + f"let r := {{ r with health := {_health(v)} }}\n" + _rstmts(rest, item, ind, unit)
        raise Unsupported("assignment " + _u(st))
    if unit:
        raise Unsupported("statement " + _u(st)[:80])
    if isinstance(st, ast.Return):
        if not (isinstance(st.value, ast.Constant) and isinstance(st.value.value, bool)):
            raise Unsupported("return " + _u(st))
        return pad + f"(r, {'true' if st.value.value else 'false'})"
    if isinstance(st, ast.If):
        return (pad + f"if {_rcond(st.test, item)} then\n" + _rstmts(list(st.body) + rest, item, ind + 1) + "\n" + pad + "else\n"
                + _rstmts(list(st.orelse) + rest, item, ind + 1))
    if isinstance(st, ast.Assign) and len(st.targets) == 1:
        t, v = _u(st.targets[0]), st.value
        if t == "self.deleted" and isinstance(v, ast.Constant) and isinstance(v.value, bool):
            return pad + f"let r := {{ r with {item} := {{ r.{item} with deleted := {'true' if v.value else 'false'} }} }}\n" + _rstmts(rest, item, ind)
        if t == "self.health_status":
            return pad + f"let r := {{ r with health := {_health(v)} }}\n" + _rstmts(rest, item, ind)
        if t == "self.visible_health_status":
            val = "r.health" if _u(v) == "self.health_status" else _health(v)
            return pad + f"let r := {{ r with visible := {val} }}\n" + _rstmts(rest, item, ind)
        if item == "g" and t == "self.restore_countdown" and _u(v) == "max(self.restore_duration, 1)":
            return pad + "let r := { r with g := { r.g with restoreCountdown := max r.g.restoreDuration 1 } }\n" + _rstmts(rest, item, ind)
        raise Unsupported("assignment " + _u(st))
    if isinstance(st, ast.AugAssign) and item == "f" and _u(st.target) == "self.num_access" and isinstance(st.op, ast.Add) and _u(st.value) == "1":
        return pad + "let r := { r with acc := r.acc + 1 }\n" + _rstmts(rest, item, ind)
    raise Unsupported("statement " + _u(st)[:80])


# ---------------------------------------------------------------------------------------------- lookups and state-level methods
# A third small translator, continuation passing like the one above, over `g : Folder` (kind "folder") or `s : State` (kind "fs"):
#     for X in self.files.values() | self.deleted_files.values() | self.folders.values() | self.deleted_folders.values():
#         if X.name == N: <body ending in return>          match (LIST).find? (fun X => X.name == N) with | some X => T(body) | none => T(rest)
#     if include_deleted: …   /  if X: … / if not X: …      Bool parameter / Optional truthiness (objects are truthy)
#     if self.files.get(X.uuid): …                          if g.files.any (fun y => y.id == X.id) then …
#     X = self.get_folder(N[, include_deleted=…]) / X = Y.get_file(N[, include_deleted=True])
#     self.files.pop(X.uuid)                                let g := { g with files := dictPop File.id g.files X.id }
#     self.deleted_files[X.uuid] = X ; X.delete()           let g := { g with deletedFiles := dictSet File.id g.deletedFiles X.delete }
#                                                           (the object is flagged AFTER it was stored: one object, so the stored one is flagged)
#     self.remove_file(X)                                   let g := g.removeFile X
#     Y.remove_file(X)          (Y a folder of the file system)   let s := updFolder s Y.id (fun g => g.removeFile X)
#     self.num_file_deletions += 1                          let s := { s with numDeletions := s.numDeletions + 1 }
#     return X / None / True / False / Y.restore_file(file_name=N)
#     `if <type guard>: raise`, logging, `msg = …`          skipped
# Round 7 additions (FileSystem.get_file / create_folder / create_file / pre_timestep / setup_for_episode, Folder.remove_all_files):
#     if <name parameter>: …                                if N != "" then … else …          (truthiness of a str; None is written "")
#     X = Folder(name=N, sys_log=self.sys_log)              let X : Folder := { id := s.next, name := N } ; s.next + 1   (a fresh uuid)
#     X = File(name=N, sim_size=…, file_type=…, folder_id=Y.uuid, folder_name=Y.name, sim_root=…, sys_log=…)
#                                                           let X : File := { id := s.next, name := N } ; s.next + 1     (name kept: no file type given
#                                                           or the name already carries the extension — the loader model has the general rule)
#     X = self.create_folder(N)                             let r := fsCreateFolder s N ; s := r.1 ; X := r.2            (the TRANSLATED method)
#     X = self.get_file(A, B)                               let X := fsGetFile s A B false                               (the TRANSLATED method)
#     Y.<attr> where Y may be None                          match Y with | none => RAISE | some Y => …                   (AttributeError)
#     Y.add_file(X, force=force)                            RAISE when folderAddFile Y X force (the TRANSLATED Folder.add_file) raises, else
#                                                           let s := updFolder s Y.id (fun g => (folderAddFile g X force).getD g)
#     if self._default_folder_restore_duration is not None: Y.restore_duration = self._default_folder_restore_duration
#                                                           match s.defaultRestore with | some d => Y := { Y with restoreDuration := d } and, Y being
#                                                           STORED in self.folders already (one object), the entry is replaced too | none => …
#     if self._default_folder_scan_duration is not None: Y.scan_duration = …      skipped (ledger: scan duration is not structural)
#     self.num_file_creations += 1 / = 0, self.num_file_deletions = 0
#     super().<same method>(…)                              skipped; emit() checks that SimComponent's method body is `pass`
#     for X in self.folders.values(): X.pre_timestep(timestep)                    skipped; emit() checks Folder/File.pre_timestep are inert
#     an `if` whose branches are empty once logging is dropped and whose test is a plain name   skipped
#     return X (folder / file variable)                     (s, X) / (s, some X);  RAISE = (s, none): the state AT the raise is kept
def _lkw(call: ast.Call, name: str, pos: int):
    for k in call.keywords:
        if k.arg == name:
            return k.value
    return call.args[pos] if pos < len(call.args) else None


def _name_arg(n: ast.AST, env: dict) -> str:
    """A name argument: a parameter / local of kind name, `<folder or file variable>.name`, or a string literal."""
    if isinstance(n, ast.Constant) and isinstance(n.value, str):
        return json.dumps(n.value)
    if isinstance(n, ast.Name) and (env.get(n.id) in ("name", None)) and not n.id.startswith("@"):
        return n.id
    if isinstance(n, ast.Attribute) and n.attr == "name" and isinstance(n.value, ast.Name) and env.get(n.value.id) in ("folder", "file"):
        return f"{n.value.id}.name"
    raise Unsupported("name argument " + (_u(n) if n is not None else "<missing>"))


def _incl(incl, env: dict) -> str:
    if incl is None:
        return "false"
    if isinstance(incl, ast.Constant) and isinstance(incl.value, bool):
        return "true" if incl.value else "false"
    if isinstance(incl, ast.Name) and env.get(incl.id) == "bool":
        return incl.id
    raise Unsupported("include_deleted argument " + _u(incl))


DICT_GET = {"self.files.get": ("g.files", "file", "folder"), "self.deleted_files.get": ("g.deletedFiles", "file", "folder"),
            "self.folders.get": ("s.folders", "folder", "fs"), "self.deleted_folders.get": ("s.deletedFolders", "folder", "fs")}


def _uuid_arg(n: ast.AST, env: dict) -> str:
    if isinstance(n, ast.Name) and env.get(n.id) == "uuid":
        return n.id
    if isinstance(n, ast.Attribute) and n.attr == "uuid" and isinstance(n.value, ast.Name) and env.get(n.value.id) in ("file", "folder"):
        return f"{n.value.id}.id"
    raise Unsupported("uuid argument " + (_u(n) if n is not None else "<missing>"))


LEDGER_IFS = ("if self._default_folder_scan_duration is not None:\n    folder.scan_duration = self._default_folder_scan_duration",)


def _all_inert(body: List[ast.stmt], env: dict) -> bool:
    return all(_rskip(b) or isinstance(b, ast.Pass) or _inert(b, env) for b in body)


def _inert(st: ast.stmt, env: dict) -> bool:
    """Statements without structural effect (each shape is exact)."""
    if isinstance(st, ast.Pass):
        return True
    if (isinstance(st, ast.AugAssign) and isinstance(st.target, ast.Attribute) and st.target.attr == "num_access" and isinstance(st.target.value, ast.Name)
            and env.get(st.target.value.id) == "file" and isinstance(st.op, ast.Add) and _u(st.value) == "1"):
        return True                                     # ledger (num_access), not structure
    if (isinstance(st, ast.Assign) and len(st.targets) == 1 and isinstance(st.targets[0], ast.Attribute) and st.targets[0].attr in ("folder_id", "folder_name")
            and isinstance(st.targets[0].value, ast.Name) and env.get(st.targets[0].value.id) == "file" and isinstance(st.value, ast.Attribute)
            and isinstance(st.value.value, ast.Name) and env.get(st.value.value.id) == "folder"
            and st.value.attr == {"folder_id": "uuid", "folder_name": "name"}[st.targets[0].attr]):
        return True                                     # back reference of a file to its folder: not part of the structure
    if isinstance(st, ast.If):
        if _u(st) in LEDGER_IFS:
            return True
        t = st.test.operand if isinstance(st.test, ast.UnaryOp) and isinstance(st.test.op, ast.Not) else st.test
        return isinstance(t, ast.Name) and _all_inert(st.body, env) and _all_inert(st.orelse, env)
    if isinstance(st, ast.Expr) and isinstance(st.value, ast.Call) and isinstance(st.value.func, ast.Attribute):
        fn = st.value.func
        if _u(fn.value) == "super()" and fn.attr == env.get("@method") and fn.attr in SUPER_PASS:
            return True
        if _u(st) == "super().__init__(**kwargs)" and env.get("@method") == "__init__":
            return True            # pydantic field defaults: empty dictionaries, counters 0 (C15_gen_constants), no default durations
    if (isinstance(st, ast.For) and not st.orelse and isinstance(st.target, ast.Name) and len(st.body) == 1
            and _u(st.iter) in ("self.folders.values()", "self.files.values()")
            and _u(st.body[0]) == f"{st.target.id}.pre_timestep(timestep)" and env.get("@method") == "pre_timestep"):
        return True
    return False


SUPER_PASS = ("pre_timestep", "setup_for_episode")   # emit() checks SimComponent.<these> are `pass`
INERT_ATTRS = {"Folder.pre_timestep": {"_scanned_this_step"}, "File.pre_timestep": {"num_access"}}


def _check_inert_methods() -> None:
    """SimComponent.pre_timestep / setup_for_episode are `pass`; FileSystemItemABC overrides neither; Folder.pre_timestep and
    File.pre_timestep only call super, assign constants to non-structural attributes of self and pass the call down to the live files."""
    from harness.extract.filesystem import FILE, ITEM
    core = class_def(parse("simulator/core.py"), "SimComponent")
    for m in SUPER_PASS:
        b = [x for x in find_method(core, m).body if not (isinstance(x, ast.Expr) and isinstance(x.value, ast.Constant))]
        if not (len(b) == 1 and isinstance(b[0], ast.Pass)):
            raise Unsupported(f"SimComponent.{m} is not `pass`")
    item = class_def(parse(ITEM), "FileSystemItemABC")
    if any(isinstance(n, ast.FunctionDef) and n.name in SUPER_PASS for n in item.body):
        raise Unsupported("FileSystemItemABC overrides pre_timestep / setup_for_episode")
    for key, rel, cn in (("Folder.pre_timestep", FOLDER, "Folder"), ("File.pre_timestep", FILE, "File")):
        fn = find_method(class_def(parse(rel), cn), "pre_timestep")
        if [a.arg for a in fn.args.args] != ["self", "timestep"]:
            raise Unsupported("signature of " + key)
        for st in fn.body:
            if _rskip(st) or _inert(st, {"@method": "pre_timestep"}):
                continue
            if (isinstance(st, ast.Assign) and len(st.targets) == 1 and isinstance(st.targets[0], ast.Attribute) and _u(st.targets[0].value) == "self"
                    and st.targets[0].attr in INERT_ATTRS[key] and isinstance(st.value, ast.Constant)):
                continue
            raise Unsupported(f"{key}: statement with a possible structural effect: " + _u(st)[:70])


def _lstmts(body: List[ast.stmt], kind: str, res: str, env: dict, ind: int) -> str:
    """kind: "folder" (the value is `g`) or "fs" (the value is `s`); res: "optfile" | "optfolder" | "bool" | "unit"."""
    pad = "  " * ind
    V = "g" if kind == "folder" else "s"
    body = [st for st in body if not (_rskip(st) or _inert(st, env))]

    def ret(val: str) -> str:
        return pad + (val if res in ("optfile", "optfolder") else f"({V}, {val})")
    if not body:
        if res == "unit":
            return pad + V
        if res == "unit!":
            return pad + f"({V}, true)"
        if res.startswith("opt"):
            return pad + "none"            # a method that may answer None falls off the end
        raise Unsupported("falls off the end")
    st, rest = body[0], body[1:]
    # an attribute of a variable that may be None: AttributeError
    derefs = sorted({n.value.id for n in ast.walk(st.test if isinstance(st, ast.If) else (st.iter if isinstance(st, ast.For) else st))
                     if isinstance(n, ast.Attribute) and isinstance(n.value, ast.Name) and env.get(n.value.id) in ("optfile", "optfolder")})
    RAISE = {"file!": f"({V}, none)", "unit!": f"({V}, false)"}.get(res)
    if derefs:
        if RAISE is None:
            raise Unsupported("attribute of a value that may be None: " + _u(st)[:60])
        x = derefs[0]
        return (pad + f"match {x} with\n" + pad + f"| none => {RAISE}\n" + pad + f"| some {x} =>\n"
                + _lstmts(body, kind, res, dict(env, **{x: env[x][3:]}), ind + 1))
    if isinstance(st, ast.Return):
        v = st.value
        if v is None or (isinstance(v, ast.Constant) and v.value is None):
            if res == "unit!":
                return pad + f"({V}, true)"
            return ret("none") if res.startswith("opt") else pad + V
        if res.startswith("opt") and isinstance(v, ast.Call) and _u(v.func) in DICT_GET and len(v.args) == 1 and not v.keywords:
            lst, what, k = DICT_GET[_u(v.func)]
            if k == kind and what == res[3:]:
                return pad + f"{lst}.find? (fun y => y.id == {_uuid_arg(v.args[0], env)})"
        if isinstance(v, ast.Constant) and isinstance(v.value, bool) and res == "bool":
            return ret("true" if v.value else "false")
        if isinstance(v, ast.Name) and res.startswith("opt") and env.get(v.id) in ("file", "folder"):
            return ret(f"some {v.id}")
        if isinstance(v, ast.Name) and res == "folder" and env.get(v.id) == "folder":
            return pad + f"(s, {v.id})"
        if isinstance(v, ast.Name) and res == "file!" and env.get(v.id) == "file":
            return pad + f"(s, some {v.id})"
        if (res == "optfile" and isinstance(v, ast.Call) and isinstance(v.func, ast.Attribute) and v.func.attr == "get_file"
                and isinstance(v.func.value, ast.Name) and env.get(v.func.value.id) == "folder"):
            return pad + f"{v.func.value.id}.getFile {_name_arg(_lkw(v, 'file_name', 0), env)} {_incl(_lkw(v, 'include_deleted', 1), env)}"
        if (kind == "fs" and res == "bool" and isinstance(v, ast.Call) and isinstance(v.func, ast.Attribute) and v.func.attr == "restore_file"
                and isinstance(v.func.value, ast.Name) and env.get(v.func.value.id) == "folder"):
            y, n = v.func.value.id, _lkw(v, "file_name", 0)
            return pad + f"(updFolder s {y}.id (fun g => (g.restoreFile {_u(n)}).1), ({y}.restoreFile {_u(n)}).2)"
        raise Unsupported("return " + _u(st))
    if isinstance(st, ast.For) and kind == "folder" and _u(st.iter) == "self.files" and isinstance(st.target, ast.Name) and not st.orelse:
        # `for k in self.files: X = self.files.get(k); X.delete(); self.deleted_files[k] = X` (the last two in either order: one object)
        k = st.target.id
        b = [x for x in st.body if not _rskip(x)]
        if len(b) == 3 and isinstance(b[0], ast.Assign) and isinstance(b[0].targets[0], ast.Name) and _u(b[0].value) in (f"self.files.get({k})", f"self.files[{k}]"):
            x = b[0].targets[0].id
            if sorted(_u(z) for z in b[1:]) == sorted([f"{x}.delete()", f"self.deleted_files[{k}] = {x}"]):
                return (pad + f"let g := {{ g with deletedFiles := g.files.foldl (fun (d : List File) ({x} : File) => dictSet File.id d {x}.delete) g.deletedFiles }}\n"
                        + _lstmts(rest, kind, res, env, ind))
        raise Unsupported("loop over self.files: " + _u(st)[:80])
    if (isinstance(st, ast.Assign) and kind == "folder" and len(st.targets) == 1 and _u(st.targets[0]) == "self.files"
            and isinstance(st.value, ast.Dict) and not st.value.keys):
        return pad + "let g := { g with files := [] }\n" + _lstmts(rest, kind, res, env, ind)
    if isinstance(st, ast.For):
        lists = {"self.files.values()": "g.files", "self.deleted_files.values()": "g.deletedFiles",
                 "self.folders.values()": "s.folders", "self.deleted_folders.values()": "s.deletedFolders"}
        lst = lists.get(_u(st.iter))
        if (lst is None or st.orelse or not isinstance(st.target, ast.Name) or len(st.body) != 1 or not isinstance(st.body[0], ast.If)
                or st.body[0].orelse or not (lst[0] == V)):
            raise Unsupported("loop " + _u(st)[:60])
        x, test = st.target.id, st.body[0].test
        if not (isinstance(test, ast.Compare) and _u(test.left) == f"{x}.name" and isinstance(test.ops[0], ast.Eq)
                and isinstance(test.comparators[0], ast.Name)):
            raise Unsupported("search condition " + _u(test))
        inner = [b for b in st.body[0].body if not _rskip(b)]
        if not inner or not isinstance(inner[-1], ast.Return):
            raise Unsupported("search loop whose body does not return")
        what = "file" if "iles" in lst and "older" not in lst.split(".")[1] else "folder"
        what = "file" if lst in ("g.files", "g.deletedFiles") else "folder"
        return (pad + f"match {lst}.find? (fun {x} => {x}.name == {test.comparators[0].id}) with\n"
                + pad + f"| some {x} =>\n" + _lstmts(inner, kind, res, dict(env, **{x: what}), ind + 1) + "\n"
                + pad + "| none =>\n" + _lstmts(rest, kind, res, env, ind + 1))
    if isinstance(st, ast.If):
        t = st.test
        if _is_type_guard(t) and len([b for b in st.body if not _rskip(b)]) == 1 and isinstance(st.body[-1], ast.Raise):
            return _lstmts(rest, kind, res, env, ind)
        # `if <name parameter> == "<literal>":`
        if (isinstance(t, ast.Compare) and isinstance(t.left, ast.Name) and env.get(t.left.id) == "name" and isinstance(t.ops[0], ast.Eq)
                and isinstance(t.comparators[0], ast.Constant) and isinstance(t.comparators[0].value, str)):
            return (pad + f"if {t.left.id} == {json.dumps(t.comparators[0].value)} then\n" + _lstmts(list(st.body) + rest, kind, res, env, ind + 1)
                    + "\n" + pad + "else\n" + _lstmts(list(st.orelse) + rest, kind, res, env, ind + 1))
        # `if X is None:` on an Optional
        if (isinstance(t, ast.Compare) and isinstance(t.left, ast.Name) and env.get(t.left.id) in ("optfile", "optfolder")
                and isinstance(t.ops[0], (ast.Is, ast.IsNot)) and isinstance(t.comparators[0], ast.Constant) and t.comparators[0].value is None):
            x = t.left.id
            none_b, some_b = (list(st.body), list(st.orelse)) if isinstance(t.ops[0], ast.Is) else (list(st.orelse), list(st.body))
            return (pad + f"match {x} with\n" + pad + f"| some {x} =>\n" + _lstmts(some_b + rest, kind, res, dict(env, **{x: env[x][3:]}), ind + 1)
                    + "\n" + pad + "| none =>\n" + _lstmts(none_b + rest, kind, res, env, ind + 1))
        # `if self._default_folder_restore_duration is not None: Y.restore_duration = self._default_folder_restore_duration`
        if _u(t) == "self._default_folder_restore_duration is not None" and kind == "fs" and not st.orelse and len(st.body) == 1:
            a = st.body[0]
            if not (isinstance(a, ast.Assign) and len(a.targets) == 1 and isinstance(a.targets[0], ast.Attribute)
                    and a.targets[0].attr == "restore_duration" and isinstance(a.targets[0].value, ast.Name)
                    and env.get(a.targets[0].value.id) == "folder" and _u(a.value) == "self._default_folder_restore_duration"):
                raise Unsupported("under the default restore duration: " + _u(a))
            y = a.targets[0].value.id
            upd = f"let {y} := {{ {y} with restoreDuration := d }}\n"
            if y in env.get("@stored", ()):
                upd += pad + f"  let s := {{ s with folders := dictSet Folder.id s.folders {y} }}\n"
            elif y in env.get("@fromfs", ()):
                upd += pad + f"  let s := updFolder s {y}.id (fun g => {{ g with restoreDuration := d }})\n"
            return (pad + "match s.defaultRestore with\n" + pad + "| some d =>\n" + pad + "  " + upd + _lstmts(rest, kind, res, env, ind + 1) + "\n"
                    + pad + "| none =>\n" + _lstmts(rest, kind, res, env, ind + 1))
        # `if Y.get_file(N) is [not] None:` on a folder variable
        if (isinstance(t, ast.Compare) and isinstance(t.ops[0], (ast.Is, ast.IsNot)) and isinstance(t.comparators[0], ast.Constant)
                and t.comparators[0].value is None and isinstance(t.left, ast.Call) and isinstance(t.left.func, ast.Attribute)
                and t.left.func.attr == "get_file" and isinstance(t.left.func.value, ast.Name) and env.get(t.left.func.value.id) == "folder"):
            c0 = t.left
            cond = f"({c0.func.value.id}.getFile {_name_arg(_lkw(c0, 'file_name', 0), env)} {_incl(_lkw(c0, 'include_deleted', 1), env)}).isSome"
            some_b, none_b = (list(st.body), list(st.orelse)) if isinstance(t.ops[0], ast.IsNot) else (list(st.orelse), list(st.body))
            return (pad + f"if {cond} then\n" + _lstmts(some_b + rest, kind, res, env, ind + 1) + "\n" + pad + "else\n"
                    + _lstmts(none_b + rest, kind, res, env, ind + 1))
        neg = isinstance(t, ast.UnaryOp) and isinstance(t.op, ast.Not)
        core = t.operand if neg else t
        yes, no = (list(st.orelse), list(st.body)) if neg else (list(st.body), list(st.orelse))
        if kind == "fs" and _u(core) == "self.folders":          # truthiness of the dict of live folders
            return (pad + "if !s.folders.isEmpty then\n" + _lstmts(yes + rest, kind, res, env, ind + 1) + "\n" + pad + "else\n"
                    + _lstmts(no + rest, kind, res, env, ind + 1))
        if isinstance(core, ast.Name) and env.get(core.id) == "name":
            return (pad + f"if {core.id} != \"\" then\n" + _lstmts(yes + rest, kind, res, env, ind + 1) + "\n" + pad + "else\n"
                    + _lstmts(no + rest, kind, res, env, ind + 1))
        if isinstance(core, ast.Name) and env.get(core.id) == "bool":
            return (pad + f"if {core.id} then\n" + _lstmts(yes + rest, kind, res, env, ind + 1) + "\n" + pad + "else\n"
                    + _lstmts(no + rest, kind, res, env, ind + 1))
        if isinstance(core, ast.Name) and env.get(core.id) in ("optfile", "optfolder"):
            x = core.id
            return (pad + f"match {x} with\n" + pad + f"| some {x} =>\n" + _lstmts(yes + rest, kind, res, dict(env, **{x: env[x][3:]}), ind + 1)
                    + "\n" + pad + "| none =>\n" + _lstmts(no + rest, kind, res, env, ind + 1))
        if kind == "folder" and not neg and isinstance(core, ast.Call) and _u(core.func) == "self.files.get" and len(core.args) == 1:
            a = core.args[0]
            if not (isinstance(a, ast.Attribute) and a.attr == "uuid" and env.get(_u(a.value)) == "file"):
                raise Unsupported("condition " + _u(core))
            return (pad + f"if g.files.any (fun y => y.id == {_u(a.value)}.id) then\n" + _lstmts(yes + rest, kind, res, env, ind + 1) + "\n"
                    + pad + "else\n" + _lstmts(no + rest, kind, res, env, ind + 1))
        raise Unsupported("if " + _u(t))
    if isinstance(st, ast.Assign) and len(st.targets) == 1 and isinstance(st.targets[0], ast.Name) and isinstance(st.value, ast.Call):
        x, c = st.targets[0].id, st.value
        f = _u(c.func)
        if f in DICT_GET and DICT_GET[f][2] == kind and len(c.args) == 1 and not c.keywords:
            lst, what, _k = DICT_GET[f]
            return (pad + f"let {x} := {lst}.find? (fun y => y.id == {_uuid_arg(c.args[0], env)})\n"
                    + _lstmts(rest, kind, res, dict(env, **{x: "opt" + what}), ind))
        if isinstance(c.func, ast.Attribute) and c.func.attr == "get_file_by_id" and isinstance(c.func.value, ast.Name):
            y = c.func.value.id
            if (y == "self" and kind == "folder") or env.get(y) == "folder":
                tgt = "g" if y == "self" else y
                return (pad + f"let {x} := folderGetFileById {tgt} {_uuid_arg(_lkw(c, 'file_uuid', 0), env)} {_incl(_lkw(c, 'include_deleted', 1), env)}\n"
                        + _lstmts(rest, kind, res, dict(env, **{x: "optfile"}), ind))
        if kind == "fs" and f == "self.get_folder_by_id":
            e2 = dict(env, **{x: "optfolder"})
            e2["@fromfs"] = tuple(env.get("@fromfs", ())) + (x,)
            return (pad + f"let {x} := fsGetFolderById s {_uuid_arg(_lkw(c, 'folder_uuid', 0), env)} {_incl(_lkw(c, 'include_deleted', 1), env)}\n"
                    + _lstmts(rest, kind, res, e2, ind))
        if kind == "fs" and f == "File" and any(k.arg is None for k in c.keywords):
            kws = {k.arg: k.value for k in c.keywords}
            star = kws.get(None)
            want = "model_dump(exclude={'uuid', 'folder_id', 'folder_name', 'sim_path'})"
            y = kws.get("folder_id")
            if not (not c.args and set(kws) == {"folder_id", "folder_name", None} and isinstance(star, ast.Call) and isinstance(star.func, ast.Attribute)
                    and isinstance(star.func.value, ast.Name) and env.get(star.func.value.id) == "file"
                    and _u(star) == f"{star.func.value.id}.{want}"
                    and isinstance(y, ast.Attribute) and y.attr == "uuid" and isinstance(y.value, ast.Name) and env.get(y.value.id) == "folder"
                    and _u(kws["folder_name"]) == f"{y.value.id}.name"):
                raise Unsupported("File copy constructor " + _u(c))
            z = star.func.value.id
            return (pad + f"let {x} : File := {{ {z} with id := s.next }}\n" + pad + "let s := { s with next := s.next + 1 }\n"
                    + _lstmts(rest, kind, res, dict(env, **{x: "file"}), ind))
        if kind == "fs" and f == "Folder":
            kws = {k.arg: k.value for k in c.keywords}
            if c.args or set(kws) != {"name", "sys_log"} or _u(kws["sys_log"]) != "self.sys_log":
                raise Unsupported("Folder constructor " + _u(c))
            e2 = dict(env, **{x: "folder"})
            e2["@stored"] = tuple(v for v in env.get("@stored", ()) if v != x)
            e2["@fromfs"] = tuple(v for v in env.get("@fromfs", ()) if v != x)
            return (pad + f"let {x} : Folder := {{ id := s.next, name := {_name_arg(kws['name'], env)} }}\n"
                    + pad + "let s := { s with next := s.next + 1 }\n" + _lstmts(rest, kind, res, e2, ind))
        if kind == "fs" and f == "File":
            kws = {k.arg: k.value for k in c.keywords}
            if c.args or set(kws) != {"name", "sim_size", "file_type", "folder_id", "folder_name", "sim_root", "sys_log"}:
                raise Unsupported("File constructor " + _u(c))
            y = kws["folder_id"]
            if not (isinstance(y, ast.Attribute) and y.attr == "uuid" and isinstance(y.value, ast.Name) and env.get(y.value.id) == "folder"
                    and _u(kws["folder_name"]) == f"{y.value.id}.name"):
                raise Unsupported("File constructor: owner " + _u(c))
            return (pad + f"let {x} : File := {{ id := s.next, name := {_name_arg(kws['name'], env)} }}\n"
                    + pad + "let s := { s with next := s.next + 1 }\n" + _lstmts(rest, kind, res, dict(env, **{x: "file"}), ind))
        if kind == "fs" and f == "self.create_folder":
            n = _lkw(c, "folder_name", 0)
            e2 = dict(env, **{x: "folder"})
            e2["@fromfs"] = tuple(env.get("@fromfs", ())) + (x,)
            return (pad + f"let r := fsCreateFolder s {_name_arg(n, env)}\n" + pad + "let s := r.1\n" + pad + f"let {x} := r.2\n"
                    + _lstmts(rest, kind, res, e2, ind))
        if kind == "fs" and f == "self.get_file":
            a, b, i = _lkw(c, "folder_name", 0), _lkw(c, "file_name", 1), _lkw(c, "include_deleted", 2)
            return (pad + f"let {x} := fsGetFile s {_name_arg(a, env)} {_name_arg(b, env)} {_incl(i, env)}\n"
                    + _lstmts(rest, kind, res, dict(env, **{x: "optfile"}), ind))
        incl = _lkw(c, "include_deleted", 1)
        inc = _incl(incl, env)
        if kind == "fs" and f == "self.get_folder":
            n = _lkw(c, "folder_name", 0)
            e2 = dict(env, **{x: "optfolder"})
            e2["@fromfs"] = tuple(env.get("@fromfs", ())) + (x,)
            return pad + f"let {x} := getFolder s {_name_arg(n, env)} {inc}\n" + _lstmts(rest, kind, res, e2, ind)
        if isinstance(c.func, ast.Attribute) and c.func.attr == "get_file" and isinstance(c.func.value, ast.Name) and env.get(c.func.value.id) == "folder":
            n = _lkw(c, "file_name", 0)
            return pad + f"let {x} := {c.func.value.id}.getFile {_name_arg(n, env)} {inc}\n" + _lstmts(rest, kind, res, dict(env, **{x: "optfile"}), ind)
        raise Unsupported("assignment " + _u(st))
    if isinstance(st, ast.AugAssign) and kind == "fs" and _u(st.target) == "self.num_file_deletions" and isinstance(st.op, ast.Add) and _u(st.value) == "1":
        return pad + "let s := { s with numDeletions := s.numDeletions + 1 }\n" + _lstmts(rest, kind, res, env, ind)
    if isinstance(st, ast.AugAssign) and kind == "fs" and _u(st.target) == "self.num_file_creations" and isinstance(st.op, ast.Add) and _u(st.value) == "1":
        return pad + "let s := { s with numCreations := s.numCreations + 1 }\n" + _lstmts(rest, kind, res, env, ind)
    if (isinstance(st, ast.Assign) and kind == "fs" and len(st.targets) == 1 and _u(st.targets[0]) in ("self.num_file_creations", "self.num_file_deletions")
            and isinstance(st.value, ast.Constant) and type(st.value.value) is int and st.value.value >= 0):
        fld = "numCreations" if _u(st.targets[0]).endswith("creations") else "numDeletions"
        return pad + f"let s := {{ s with {fld} := {st.value.value} }}\n" + _lstmts(rest, kind, res, env, ind)
    if isinstance(st, ast.Assign) and kind == "folder" and len(st.targets) == 1 and isinstance(st.targets[0], ast.Subscript):
        tgt = st.targets[0]
        if (_u(tgt.value) == "self.deleted_files" and isinstance(st.value, ast.Name) and _u(tgt.slice) == f"{st.value.id}.uuid"
                and rest and _u(rest[0]) == f"{st.value.id}.delete()"):
            x = st.value.id
            return (pad + f"let g := {{ g with deletedFiles := dictSet File.id g.deletedFiles {x}.delete }}\n" + _lstmts(rest[1:], kind, res, env, ind))
        raise Unsupported("store " + _u(st))
    if kind == "fs" and isinstance(st, ast.Assign) and len(st.targets) == 1 and isinstance(st.targets[0], ast.Subscript):
        tgt = st.targets[0]
        d = {"self.folders": "folders", "self.deleted_folders": "deletedFolders"}.get(_u(tgt.value))
        if d and isinstance(st.value, ast.Name) and env.get(st.value.id) == "folder" and _u(tgt.slice) == f"{st.value.id}.uuid":
            e2 = dict(env)
            if d == "folders":
                e2["@stored"] = tuple(env.get("@stored", ())) + (st.value.id,)
            return pad + f"let s := {{ s with {d} := dictSet Folder.id s.{d} {st.value.id} }}\n" + _lstmts(rest, kind, res, e2, ind)
        raise Unsupported("store " + _u(st))
    if kind == "fs" and isinstance(st, ast.Expr) and isinstance(st.value, ast.Call):
        c = st.value
        f = _u(c.func)
        d = {"self.folders.pop": "folders", "self.deleted_folders.pop": "deletedFolders"}.get(f)
        if d and c.args and isinstance(c.args[0], ast.Attribute) and c.args[0].attr == "uuid" and env.get(_u(c.args[0].value)) == "folder" \
                and (len(c.args) == 1 or _u(c.args[1]) == "None"):
            return pad + f"let s := {{ s with {d} := dictPop Folder.id s.{d} {_u(c.args[0].value)}.id }}\n" + _lstmts(rest, kind, res, env, ind)
        # a method of the folder object itself: the object is (re)stored afterwards, so the variable is rebound to the result;
        # restore() / delete() are the TRANSLATED Folder methods (their structural result does not depend on health)
        if isinstance(c.func, ast.Attribute) and isinstance(c.func.value, ast.Name) and env.get(c.func.value.id) == "folder" and not c.args and not c.keywords:
            x = c.func.value.id
            call = {"restore": f"(folderRestore {{ g := {x} }}).1.g", "delete": f"(folderDelete {{ g := {x} }}).1.g",
                    "remove_all_files": f"{x}.removeAllFiles"}.get(c.func.attr)
            if call:
                return pad + f"let {x} := {call}\n" + _lstmts(rest, kind, res, env, ind)
        if (isinstance(c.func, ast.Attribute) and c.func.attr == "add_file" and isinstance(c.func.value, ast.Name) and env.get(c.func.value.id) == "folder"
                and RAISE is not None):
            y, fa, fo_ = c.func.value.id, _lkw(c, "file", 0), _lkw(c, "force", 1)
            if not (isinstance(fa, ast.Name) and env.get(fa.id) == "file"):
                raise Unsupported("add_file argument " + _u(c))
            frc = "false" if fo_ is None else (fo_.id if isinstance(fo_, ast.Name) and env.get(fo_.id) == "bool" else
                                               ("true" if isinstance(fo_, ast.Constant) and fo_.value is True else
                                                ("false" if isinstance(fo_, ast.Constant) and fo_.value is False else None)))
            if frc is None:
                raise Unsupported("add_file force " + _u(c))
            return (pad + f"match folderAddFile {y} {fa.id} {frc} with\n" + pad + f"| none => {RAISE}\n" + pad + "| some _ =>\n"
                    + pad + f"  let s := updFolder s {y}.id (fun g => (folderAddFile g {fa.id} {frc}).getD g)\n" + _lstmts(rest, kind, res, env, ind + 1))
        if f == "self._folder_request_manager.add_request":
            nm, rt = _lkw(c, "name", 0), _lkw(c, "request_type", 1)
            if (isinstance(nm, ast.Attribute) and nm.attr == "name" and env.get(_u(nm.value)) == "folder" and isinstance(rt, ast.Call)
                    and _u(rt.func) == "RequestType" and len(rt.keywords) == 1 and _u(rt.keywords[0].value) == f"{_u(nm.value)}._request_manager"):
                x = _u(nm.value)
                return pad + f"let s := {{ s with folderRoutes := ({x}.name, {x}.id) :: s.folderRoutes }}\n" + _lstmts(rest, kind, res, env, ind)
    if isinstance(st, ast.Expr) and isinstance(st.value, ast.Call):
        c = st.value
        f = _u(c.func)
        if kind == "folder" and f == "self.files.pop" and len(c.args) == 1 and isinstance(c.args[0], ast.Attribute) and c.args[0].attr == "uuid":
            return pad + f"let g := {{ g with files := dictPop File.id g.files {_u(c.args[0].value)}.id }}\n" + _lstmts(rest, kind, res, env, ind)
        if kind == "folder" and f == "self.remove_file" and isinstance(_lkw(c, "file", 0), ast.Name) and len(c.args) + len(c.keywords) == 1:
            x = _lkw(c, "file", 0).id
            if env.get(x) == "optfile":          # remove_file(None) raises (its type guard)
                if RAISE is None:
                    raise Unsupported("remove_file of a value that may be None")
                return (pad + f"match {x} with\n" + pad + f"| none => {RAISE}\n" + pad + f"| some {x} =>\n" + pad + f"  let g := g.removeFile {x}\n"
                        + _lstmts(rest, kind, res, dict(env, **{x: "file"}), ind + 1))
            if env.get(x) != "file":
                raise Unsupported("remove_file argument " + _u(c))
            return pad + f"let g := g.removeFile {x}\n" + _lstmts(rest, kind, res, env, ind)
        if (kind == "fs" and isinstance(c.func, ast.Attribute) and c.func.attr == "pop" and isinstance(c.func.value, ast.Attribute)
                and c.func.value.attr == "files" and isinstance(c.func.value.value, ast.Name) and env.get(c.func.value.value.id) == "folder"
                and len(c.args) == 1 and not c.keywords and RAISE is not None):
            y, k = c.func.value.value.id, _uuid_arg(c.args[0], env)
            # dict.pop(k) without a default raises KeyError for a missing key. The folder object is mutated IN the file system: every folder
            # variable is read again from the state afterwards (a variable denotes the object of that uuid; an object not stored keeps its value)
            rebind = "".join(pad + f"  let {v} := (findFolderById s {v}.id).getD {v}\n" for v, kd in env.items() if kd == "folder" and not v.startswith("@"))
            return (pad + f"if !({y}.files.any (fun y => y.id == {k})) then {RAISE} else\n"
                    + pad + f"  let s := updFolder s {y}.id (fun g => {{ g with files := dictPop File.id g.files {k} }})\n" + rebind
                    + _lstmts(rest, kind, res, env, ind + 1))
        if kind == "fs" and f == "self.create_folder" and len(c.args) + len(c.keywords) == 1:
            return pad + f"let s := (fsCreateFolder s {_name_arg(_lkw(c, 'folder_name', 0), env)}).1\n" + _lstmts(rest, kind, res, env, ind)
        if kind == "fs" and f == "self.delete_file" and not c.args and {k.arg for k in c.keywords} == {"folder_name", "file_name"}:
            return (pad + f"let s := (fsDeleteFile s {_name_arg(_lkw(c, 'folder_name', 0), env)} {_name_arg(_lkw(c, 'file_name', 1), env)}).1\n"
                    + _lstmts(rest, kind, res, env, ind))
        if kind == "fs" and f == "self.delete_folder" and not c.args and {k.arg for k in c.keywords} == {"folder_name"}:
            return pad + f"let s := (fsDeleteFolder s {_name_arg(_lkw(c, 'folder_name', 0), env)}).1\n" + _lstmts(rest, kind, res, env, ind)
        if (kind == "fs" and isinstance(c.func, ast.Attribute) and c.func.attr == "remove_file" and isinstance(c.func.value, ast.Name)
                and env.get(c.func.value.id) == "folder" and len(c.args) == 1 and isinstance(c.args[0], ast.Name)):
            return (pad + f"let s := updFolder s {c.func.value.id}.id (fun g => g.removeFile {c.args[0].id})\n" + _lstmts(rest, kind, res, env, ind))
        raise Unsupported("call " + _u(st))
    raise Unsupported("statement " + _u(st)[:80])



# ---------------------------------------------------------------------------------------------- structurally inert methods + the tick
# A method is STRUCTURALLY INERT when, syntactically, it (a) assigns only to local names and to `self.<attr>` with attr in a whitelist of
# non-structural attributes, (b) calls only whitelisted callees (each itself inert or translated with an unchanged structural part), (c) has no
# raise / del / with / try / lambda, and (d) iterates only over `self.files` (keys, values or items). Everything structural — `files`,
# `deleted_files`, `deleted`, `restore_countdown`, the request managers, `folders`, `deleted_folders` — can then not be written.
NONSTRUCT = {"scan_countdown", "red_scan_countdown", "health_status", "visible_health_status", "_scanned_this_step", "revealed_to_red", "num_access"}
INERT_CALLS = {"self.get_file_by_id", "file.scan", "file.repair", "file.corrupt", "file.reveal_to_red", "FileSystemItemHealthStatus", "max",
               "self.files.values", "warnings.warn"}
INERT_METHODS = [  # (file constant name, class, method, extra allowed callees)
    ("FOLDER", "Folder", "_scan_timestep", ()), ("FOLDER", "Folder", "_reveal_to_red_timestep", ()), ("FILE", "File", "reveal_to_red", ()),
    ("FILE", "File", "apply_timestep", ("super().apply_timestep", "super")),
    # the folder-level health verbs: loops over the live files calling the (translated) file verbs; their ANSWER is tied by the guard table
    # (`C15_gen_guards`: False for a deleted folder, True otherwise), their structural inertness here
    ("FOLDER", "Folder", "scan", ()), ("FOLDER", "Folder", "repair", ()), ("FOLDER", "Folder", "corrupt", ()), ("FOLDER", "Folder", "reveal_to_red", ()),
]


def _assert_inert(fn: ast.FunctionDef, where: str, extra=()) -> None:
    for n in ast.walk(fn):
        if isinstance(n, (ast.Raise, ast.Delete, ast.With, ast.Try, ast.Lambda, ast.Global, ast.Nonlocal, ast.Await, ast.Yield, ast.YieldFrom,
                          ast.FunctionDef, ast.ClassDef)) and n is not fn:
            raise Unsupported(f"{where}: {type(n).__name__} in a method taken to be structurally inert")
        if isinstance(n, (ast.Assign, ast.AugAssign, ast.AnnAssign)):
            for t in (n.targets if isinstance(n, ast.Assign) else [n.target]):
                ok = isinstance(t, ast.Name) or (isinstance(t, ast.Attribute) and _u(t.value) == "self" and t.attr in NONSTRUCT)
                if not ok:
                    raise Unsupported(f"{where}: writes {_u(t)} (not in the non-structural whitelist)")
        if isinstance(n, ast.Call):
            f = _u(n.func)
            if not (f in INERT_CALLS or f in extra or f.startswith(("self.sys_log.", "_LOGGER."))):
                raise Unsupported(f"{where}: calls {f} (not known to be structurally inert)")
        if isinstance(n, (ast.For, ast.comprehension)) and _u(n.iter) not in ("self.files", "self.files.values()", "self.files.items()"):
            raise Unsupported(f"{where}: iterates over {_u(n.iter)}")
        if isinstance(n, ast.NamedExpr):
            raise Unsupported(f"{where}: walrus assignment")


def _tick_methods() -> List[str]:
    from harness.extract.filesystem import FILE, FS, ITEM
    rels = {"FOLDER": FOLDER, "FILE": FILE}
    for relname, cn, m, extra in INERT_METHODS:
        _assert_inert(find_method(class_def(parse(rels[relname]), cn), m), f"{cn}.{m}", extra)
    core = class_def(parse("simulator/core.py"), "SimComponent")
    b = [x for x in find_method(core, "apply_timestep").body if not (isinstance(x, ast.Expr) and isinstance(x.value, ast.Constant))]
    if not (len(b) == 1 and isinstance(b[0], ast.Pass)):
        raise Unsupported("SimComponent.apply_timestep is not `pass`")
    item = class_def(parse(ITEM), "FileSystemItemABC")
    if any(isinstance(n, ast.FunctionDef) and n.name == "apply_timestep" for n in item.body):
        raise Unsupported("FileSystemItemABC overrides apply_timestep")
    for m in ("scan", "reveal_to_red"):
        fn = find_method(class_def(parse(FS), "FileSystem"), m)
        b = [st for st in fn.body if not _rskip(st)]
        if not (len(b) == 1 and isinstance(b[0], ast.For) and isinstance(b[0].target, ast.Name) and not b[0].orelse and len(b[0].body) == 1
                and (_u(b[0].iter), _u(b[0].body[0])) in (("self.folders", f"self.folders[{b[0].target.id}].{m}(instant_scan=instant_scan)"),
                                                           ("self.folders.values()", f"{b[0].target.id}.{m}(instant_scan=instant_scan)"))):
            raise Unsupported(f"FileSystem.{m}: not a plain loop over the live folders calling Folder.{m}")
    # Folder.apply_timestep onto FolderRec
    fo = find_method(class_def(parse(FOLDER), "Folder"), "apply_timestep")
    if [a.arg for a in fo.args.args] != ["self", "timestep"]:
        raise Unsupported("signature of Folder.apply_timestep")
    L = ["/-- `Folder.apply_timestep`, translated statement by statement onto `FolderRec` (the scan / reveal steps and the files' own",
         "`apply_timestep` are checked to be structurally inert by the extractor and dropped) -/",
         "def folderApplyTimestep (r : FolderRec) : FolderRec :="]
    inert_self = {f"self.{m}()" for _, cn, m, _ in INERT_METHODS if cn == "Folder"}
    for st in fo.body:
        if _rskip(st):
            continue
        u = _u(st)
        if u == "super().apply_timestep(timestep=timestep)" or u in inert_self:
            continue
        if u == "self._restoring_timestep()":
            L.append("  let r := folderRestoringTimestep r")
            continue
        if (isinstance(st, ast.For) and _u(st.iter) == "self.files" and isinstance(st.target, ast.Name) and len(st.body) == 1 and not st.orelse
                and _u(st.body[0]) == f"self.files[{st.target.id}].apply_timestep(timestep=timestep)"):
            continue
        raise Unsupported("Folder.apply_timestep: " + u[:80])
    L += ["  r", ""]
    # FileSystem.apply_timestep: every LIVE folder, each on its own object
    fs = find_method(class_def(parse(FS), "FileSystem"), "apply_timestep")
    if [a.arg for a in fs.args.args] != ["self", "timestep"]:
        raise Unsupported("signature of FileSystem.apply_timestep")
    L += ["/-- `FileSystem.apply_timestep`, translated: the loop over the LIVE folders (a folder's tick touches only that folder; its structural",
          "result does not depend on its health: `C15_restoring_timestep_ignores_health`) -/", "def fsApplyTimestep (s : State) : State :="]
    for st in fs.body:
        if _rskip(st):
            continue
        u = _u(st)
        if u == "super().apply_timestep(timestep=timestep)":
            continue
        if isinstance(st, ast.For) and isinstance(st.target, ast.Name) and len(st.body) == 1 and not st.orelse:
            k = st.target.id
            if (_u(st.iter), _u(st.body[0])) in (("self.folders", f"self.folders[{k}].apply_timestep(timestep=timestep)"),
                                                 ("self.folders.values()", f"{k}.apply_timestep(timestep=timestep)")):
                L.append("  let s := { s with folders := s.folders.map (fun g => (folderApplyTimestep { g := g }).g) }")
                continue
        raise Unsupported("FileSystem.apply_timestep: " + u[:80])
    L += ["  s", ""]
    return L


# ---------------------------------------------------------------------------------------------- describe_state
# `describe_state` of FileSystem / Folder onto the model's `Desc` / `FolderDesc` (the structural part of the report):
#     state = super().describe_state()                                           (folder: id := g.id — emit() checks that the chain
#                                                                                 FileSystemItemABC → SimComponent puts `uuid: self.uuid` in)
#     state[K] = {X.name: X.describe_state() for X in self.<dict>.values()}      <field K> := pyDict (<list>.map fun X => (X.name, D X))
#     state[K] = {X.name: X.describe_state() for _, X in self.<dict>.items()}    (the same)       D folder = folderDescribeState, D file = its uuid
#     state[K] = self.num_file_creations / self.num_file_deletions               numCreations / numDeletions := …
#     state[K] = self._scanned_this_step                                         skipped (not structural)
#     return state
DESC_FIELDS = {"FileSystem": {"folders": "folders", "deleted_folders": "deletedFolders", "num_file_creations": "numCreations",
                              "num_file_deletions": "numDeletions"},
               "Folder": {"files": "files", "deleted_files": "deletedFiles"}}
DESC_SKIP = {"Folder": {"scanned_this_step": "self._scanned_this_step"}, "FileSystem": {}}
DESC_LISTS = {"FileSystem": {"self.folders": "s.folders", "self.deleted_folders": "s.deletedFolders"},
              "Folder": {"self.files": "g.files", "self.deleted_files": "g.deletedFiles"}}


def _describe(cn: str, fn: ast.FunctionDef) -> List[str]:
    if [a.arg for a in fn.args.args] != ["self"]:
        raise Unsupported(f"signature of {cn}.describe_state")
    body = [st for st in fn.body if not _rskip(st)]
    if not (len(body) >= 2 and _u(body[0]) == "state = super().describe_state()" and _u(body[-1]) == "return state"):
        raise Unsupported(f"{cn}.describe_state: frame")
    fields = {}
    for st in body[1:-1]:
        if not (isinstance(st, ast.Assign) and len(st.targets) == 1 and isinstance(st.targets[0], ast.Subscript) and _u(st.targets[0].value) == "state"
                and isinstance(st.targets[0].slice, ast.Constant) and isinstance(st.targets[0].slice.value, str)):
            raise Unsupported(f"{cn}.describe_state: " + _u(st)[:70])
        key, v = st.targets[0].slice.value, st.value
        if key in DESC_SKIP[cn] and _u(v) == DESC_SKIP[cn][key]:
            continue
        fld = DESC_FIELDS[cn].get(key)
        if fld is None or fld in fields:
            raise Unsupported(f"{cn}.describe_state: key {key!r}")
        if isinstance(v, ast.DictComp) and len(v.generators) == 1 and not v.generators[0].ifs:
            gen = v.generators[0]
            it, tgt = _u(gen.iter), gen.target
            if it.endswith(".values()") and isinstance(tgt, ast.Name):
                x, src = tgt.id, it[:-len(".values()")]
            elif it.endswith(".items()") and isinstance(tgt, ast.Tuple) and len(tgt.elts) == 2 and isinstance(tgt.elts[1], ast.Name):
                x, src = tgt.elts[1].id, it[:-len(".items()")]
            else:
                raise Unsupported(f"{cn}.describe_state: comprehension over {it}")
            lst = DESC_LISTS[cn].get(src)
            if lst is None or _u(v.key) != f"{x}.name" or _u(v.value) != f"{x}.describe_state()":
                raise Unsupported(f"{cn}.describe_state: comprehension {_u(v)[:70]}")
            d = f"folderDescribeState {x}" if cn == "FileSystem" else f"{x}.id"
            fields[fld] = f"pyDict ({lst}.map fun {x} => ({x}.name, {d}))"
        elif cn == "FileSystem" and _u(v) in ("self.num_file_creations", "self.num_file_deletions"):
            fields[fld] = "s.numCreations" if _u(v).endswith("creations") else "s.numDeletions"
        else:
            raise Unsupported(f"{cn}.describe_state: value {_u(v)[:70]}")
    if set(fields) != set(DESC_FIELDS[cn].values()):
        raise Unsupported(f"{cn}.describe_state: missing keys {sorted(set(DESC_FIELDS[cn].values()) - set(fields))}")
    head = "{ id := g.id, " if cn == "Folder" else "{ "
    return ["  " + head + ", ".join(f"{k} := {fields[k]}" for k in DESC_FIELDS[cn].values()) + " }", ""]


def _describe_methods() -> List[str]:
    from harness.extract.filesystem import FS, ITEM
    # the uuid in a folder's / file's report comes from SimComponent.describe_state through FileSystemItemABC.describe_state
    core = find_method(class_def(parse("simulator/core.py"), "SimComponent"), "describe_state")
    if not any(isinstance(n, ast.Dict) and any(isinstance(k, ast.Constant) and k.value == "uuid" and _u(v) == "self.uuid" for k, v in zip(n.keys, n.values))
               for n in ast.walk(core)):
        raise Unsupported("SimComponent.describe_state does not report 'uuid': self.uuid")
    item = find_method(class_def(parse(ITEM), "FileSystemItemABC"), "describe_state")
    ib = [st for st in item.body if not _rskip(st)]
    if not (_u(ib[0]) == "state = super().describe_state()" and _u(ib[-1]) == "return state"
            and not any(isinstance(st, ast.Assign) and "uuid" in _u(st.targets[0]) for st in ib[1:-1])):
        raise Unsupported("FileSystemItemABC.describe_state: frame")
    L = ["/-- `Folder.describe_state`, translated onto the structural `FolderDesc` (a file's entry is abstracted to its uuid) -/",
         "def folderDescribeState (g : Folder) : FolderDesc :="]
    L += _describe("Folder", find_method(class_def(parse(FOLDER), "Folder"), "describe_state"))
    L += ["/-- `FileSystem.describe_state`, translated onto the structural `Desc` -/", "def fsDescribeState (s : State) : Desc :="]
    L += _describe("FileSystem", find_method(class_def(parse(FS), "FileSystem"), "describe_state"))
    return L


# ---------------------------------------------------------------------------------------------- request handlers and validators
# The three handler closures of FileSystem._init_request_manager and the five validators, onto `State × Out` / `Bool`:
#     request[i]                                  r0, r1 : Name;  r2 : Bool (its truthiness — the wire carries it as such)
#     request[0] or '<lit>'                       (if r0 != "" then r0 else "<lit>")
#     if <c>: return RequestResponse.from_bool(False)                   if c then (s, .failure) else …
#     c: not request[2] | <c> and <c> | self.get_file(folder_name=A, file_name=B)  [truthiness = found]
#        | not X (X an Optional local) | self.access_file(folder_name=A, file_name=B) [the TRANSLATED method: state and answer]
#     X = self.get_file(folder_name=A, file_name=B)                     let X := fsGetFile s A B false
#     X = self.create_file(folder_name=A, file_name=B, force=C)         match fsCreateFile s B A C with | (s, none) => (s, .raised) | (s, some X) => …
#     X = self.create_folder(folder_name=A)                             let r := fsCreateFolder s A; s := r.1; X := r.2
#     `if not X: return …` on a value that cannot be None (an object)   dead, dropped
#     return RequestResponse(status='success', data={…})                (s, .success)        (the data only reads attributes)
# validators: `if len(request) < k: return False` is recorded as the arity k (the model's operations always carry their options), then
#     return <lookup> is not None  |  X = <lookup>; return X is not None and (not X.deleted)
def _req(e: ast.AST) -> str:
    if isinstance(e, ast.Subscript) and _u(e.value) == "request" and isinstance(e.slice, ast.Constant) and e.slice.value in (0, 1, 2):
        return f"r{e.slice.value}"
    if (isinstance(e, ast.BoolOp) and isinstance(e.op, ast.Or) and len(e.values) == 2 and isinstance(e.values[1], ast.Constant)
            and isinstance(e.values[1].value, str) and e.values[1].value):
        a = _req(e.values[0])
        return f'(if {a} != "" then {a} else {json.dumps(e.values[1].value)})'
    raise Unsupported("request option " + _u(e))


def _kwargs(c: ast.Call, names) -> List[str]:
    if c.args or [k.arg for k in c.keywords] != list(names):
        raise Unsupported("handler call " + _u(c))
    return [_req(k.value) for k in c.keywords]


def _hcond(e: ast.AST, env: dict):
    """-> (lean Bool expression, state-updating call or None)"""
    if isinstance(e, ast.BoolOp) and isinstance(e.op, ast.And):
        parts = [_hcond(v, env) for v in e.values]
        if any(p[1] for p in parts):
            raise Unsupported("state-changing call inside `and`")
        return "(" + " && ".join(p[0] for p in parts) + ")", None
    if isinstance(e, ast.UnaryOp) and isinstance(e.op, ast.Not):
        if isinstance(e.operand, ast.Name) and env.get(e.operand.id) == "optfile":
            return f"{e.operand.id}.isNone", None
        if isinstance(e.operand, ast.Name) and env.get(e.operand.id) in ("file", "folder"):
            return "false", None            # an object is truthy
        if isinstance(e.operand, ast.Subscript):
            r = _req(e.operand)
            if r != "r2":
                raise Unsupported("truthiness of a name option " + _u(e))
            return "!r2", None
        raise Unsupported("handler condition " + _u(e))
    if isinstance(e, ast.Call) and _u(e.func) == "self.get_file":
        a, b = _kwargs(e, ("folder_name", "file_name"))
        return f"(fsGetFile s {a} {b} false).isSome", None
    if isinstance(e, ast.Call) and _u(e.func) == "self.access_file":
        a, b = _kwargs(e, ("folder_name", "file_name"))
        return f"(fsAccessFile s {a} {b}).2", f"(fsAccessFile s {a} {b}).1"
    raise Unsupported("handler condition " + _u(e))


def _is_failure(st: ast.stmt) -> bool:
    return isinstance(st, ast.Return) and _u(st.value) == "RequestResponse.from_bool(False)"


def _hstmts(body: List[ast.stmt], env: dict, ind: int) -> str:
    pad = "  " * ind
    body = [st for st in body if not _rskip(st)]
    if not body:
        raise Unsupported("handler falls off the end")
    st, rest = body[0], body[1:]
    if _is_failure(st):
        return pad + "(s, .failure)"
    if isinstance(st, ast.Return):
        c = st.value
        if (isinstance(c, ast.Call) and _u(c.func) == "RequestResponse" and not c.args and [k.arg for k in c.keywords] == ["status", "data"]
                and _u(c.keywords[0].value) == "'success'" and not any(isinstance(n, ast.Call) for n in ast.walk(c.keywords[1].value))):
            return pad + "(s, .success)"
        raise Unsupported("handler return " + _u(st)[:70])
    if isinstance(st, ast.If) and not st.orelse and len([b for b in st.body if not _rskip(b)]) == 1:
        inner = [b for b in st.body if not _rskip(b)][0]
        cond, upd = _hcond(st.test, env)
        if cond == "false":
            return _hstmts(rest, env, ind)
        if upd is None:
            return pad + f"if {cond} then\n" + _hstmts([inner], env, ind + 1) + "\n" + pad + "else\n" + _hstmts(rest, env, ind + 1)
        return (pad + f"let b := {cond}\n" + pad + f"let s := {upd}\n" + pad + "if b then\n" + _hstmts([inner], env, ind + 1) + "\n" + pad + "else\n"
                + _hstmts(rest, env, ind + 1))
    if isinstance(st, ast.Assign) and len(st.targets) == 1 and isinstance(st.targets[0], ast.Name) and isinstance(st.value, ast.Call):
        x, c = st.targets[0].id, st.value
        f = _u(c.func)
        if f == "self.get_file":
            a, b = _kwargs(c, ("folder_name", "file_name"))
            return pad + f"let {x} := fsGetFile s {a} {b} false\n" + _hstmts(rest, dict(env, **{x: "optfile"}), ind)
        if f == "self.create_file":
            a, b, fc = _kwargs(c, ("folder_name", "file_name", "force"))
            if fc != "r2":
                raise Unsupported("force option " + _u(c))
            return (pad + f"match fsCreateFile s {b} {a} {fc} with\n" + pad + "| (s, none) => (s, .raised)\n" + pad + f"| (s, some {x}) =>\n"
                    + _hstmts(rest, dict(env, **{x: "file"}), ind + 1))
        if f == "self.create_folder":
            (a,) = _kwargs(c, ("folder_name",))
            return (pad + f"let r := fsCreateFolder s {a}\n" + pad + "let s := r.1\n" + pad + f"let {x} := r.2\n"
                    + _hstmts(rest, dict(env, **{x: "folder"}), ind))
    raise Unsupported("handler statement " + _u(st)[:70])


HANDLERS = [("_create_file_action", "hCreateFileAction", "(r0 r1 : Name) (r2 : Bool)"), ("_create_folder_action", "hCreateFolderAction", "(r0 : Name)"),
            ("_access_file_action", "hAccessFileAction", "(r0 r1 : Name)")]
VALIDATORS = [("FS", "FileSystem", "_FolderExistsValidator", "vFolderExists", "s", "(r0 : Name)"),
              ("FS", "FileSystem", "_FolderNotDeletedValidator", "vFolderNotDeleted", "s", "(r0 : Name)"),
              ("FS", "FileSystem", "_FileExistsValidator", "vFileExists", "s", "(r0 r1 : Name)"),
              ("FOLDER", "Folder", "_FileExistsValidator", "vFolderFileExists", "g", "(r0 : Name)"),
              ("FOLDER", "Folder", "_FileNotDeletedValidator", "vFolderFileNotDeleted", "g", "(r0 : Name)")]


def _vlookup(e: ast.AST, v: str) -> str:
    if not isinstance(e, ast.Call):
        raise Unsupported("validator lookup " + _u(e))
    f = _u(e.func)
    kws = {k.arg: k.value for k in e.keywords}
    if e.args:
        raise Unsupported("validator lookup " + _u(e))
    incl = _incl(kws.pop("include_deleted", None), {})
    if v == "s" and f == "self.file_system.get_folder" and set(kws) == {"folder_name"}:
        return f"getFolder s {_req(kws['folder_name'])} {incl}"
    if v == "s" and f == "self.file_system.get_file" and set(kws) == {"folder_name", "file_name"}:
        return f"fsGetFile s {_req(kws['folder_name'])} {_req(kws['file_name'])} {incl}"
    if v == "g" and f == "self.folder.get_file" and set(kws) == {"file_name"}:
        return f"g.getFile {_req(kws['file_name'])} {incl}"
    raise Unsupported("validator lookup " + _u(e))


FILE_ACTION = "_file_action"


def file_action_shape(irm: ast.FunctionDef):
    """The closure `_file_action` read structurally (second shift of round 7: no text pin):
        X = self.get_file(folder_name=request[i], file_name=request[j])        (or the lookup written inside the return)
        return X._request_manager(request[k:], context)
    -> (Lean lookup expression over r0 r1, k). Anything else raises Unsupported."""
    fns = [n for n in irm.body if isinstance(n, ast.FunctionDef) and n.name == FILE_ACTION]
    if len(fns) != 1 or [a.arg for a in fns[0].args.args] != ["request", "context"]:
        raise Unsupported("handler " + FILE_ACTION)
    body = [st for st in fns[0].body if not _rskip(st)]
    if not body or not isinstance(body[-1], ast.Return) or len(body) > 2:
        raise Unsupported(FILE_ACTION + " body")
    ret = body[-1].value
    if not (isinstance(ret, ast.Call) and isinstance(ret.func, ast.Attribute) and ret.func.attr == "_request_manager" and not ret.keywords
            and len(ret.args) == 2 and _u(ret.args[1]) == "context"):
        raise Unsupported(FILE_ACTION + " dispatch " + _u(ret)[:80])
    sl = ret.args[0]
    if not (isinstance(sl, ast.Subscript) and _u(sl.value) == "request" and isinstance(sl.slice, ast.Slice) and sl.slice.upper is None
            and sl.slice.step is None and isinstance(sl.slice.lower, ast.Constant) and isinstance(sl.slice.lower.value, int)):
        raise Unsupported(FILE_ACTION + " remaining request " + _u(sl))
    target = ret.func.value
    if len(body) == 2:
        a = body[0]
        if not (isinstance(a, ast.Assign) and len(a.targets) == 1 and isinstance(a.targets[0], ast.Name) and isinstance(target, ast.Name)
                and target.id == a.targets[0].id):
            raise Unsupported(FILE_ACTION + " lookup " + _u(a)[:80])
        target = a.value
    if not (isinstance(target, ast.Call) and _u(target.func) == "self.get_file"):
        raise Unsupported(FILE_ACTION + " lookup " + _u(target)[:80])
    kw = {k.arg: k.value for k in target.keywords}
    fo_arg = kw.get("folder_name", target.args[0] if target.args else None)
    fi_arg = kw.get("file_name", target.args[1] if len(target.args) > 1 else None)
    if fo_arg is None or fi_arg is None or set(kw) - {"folder_name", "file_name"} or len(target.args) + len(kw) != 2:
        raise Unsupported(FILE_ACTION + " lookup arguments " + _u(target))
    return f"fsGetFile s {_req(fo_arg)} {_req(fi_arg)} false", sl.slice.lower.value


def _handler_methods() -> List[str]:
    from harness.extract.filesystem import FS
    rels = {"FS": FS, "FOLDER": FOLDER}
    irm = find_method(class_def(parse(FS), "FileSystem"), "_init_request_manager")
    L: List[str] = []
    look, consumed = file_action_shape(irm)
    L += ["/-- the closure `_file_action`: the file whose OWN request manager answers the rest of the request (`none`: Python raises, the",
          "route's `_file_exists` validator excludes it) — the lookup is the TRANSLATED `get_file` on the request's options -/",
          "def hFileActionTarget (s : State) (r0 r1 : Name) : Option File :=", "  " + look, "",
          "/-- … and how many leading options it consumes before it hands `request[k:]` to that manager -/",
          f"def hFileActionConsumed : Nat := {consumed}", ""]
    for py, nm, binders in HANDLERS:
        fns = [n for n in irm.body if isinstance(n, ast.FunctionDef) and n.name == py]
        if len(fns) != 1 or [a.arg for a in fns[0].args.args] != ["request", "context"]:
            raise Unsupported("handler " + py)
        L += [f"/-- the request handler `{py}`, translated statement by statement -/", f"def {nm} (s : State) {binders} : State × Out :=",
              _hstmts(list(fns[0].body), {}, 1), ""]
    arities = []
    for relname, cn, vn, nm, v, binders in VALIDATORS:
        cls = [n for n in class_def(parse(rels[relname]), cn).body if isinstance(n, ast.ClassDef) and n.name == vn]
        if len(cls) != 1:
            raise Unsupported("validator " + vn)
        fn = find_method(cls[0], "__call__")
        body = [st for st in fn.body if not _rskip(st)]
        k = 0
        if body and isinstance(body[0], ast.If) and _u(body[0].test).startswith("len(request) < ") and len(body[0].body) == 1 and _u(body[0].body[0]) == "return False":
            k = int(_u(body[0].test).split("<")[1])
            body = body[1:]
        arities.append((f"{cn}.{vn}", k))
        V = "(s : State)" if v == "s" else "(g : Folder)"
        if len(body) == 1 and isinstance(body[0], ast.Return) and isinstance(body[0].value, ast.Compare) and isinstance(body[0].value.ops[0], ast.IsNot) \
                and _u(body[0].value.comparators[0]) == "None":
            expr = f"({_vlookup(body[0].value.left, v)}).isSome"
        elif (len(body) == 2 and isinstance(body[0], ast.Assign) and isinstance(body[0].targets[0], ast.Name) and isinstance(body[1], ast.Return)
              and _u(body[1].value) == f"{body[0].targets[0].id} is not None and (not {body[0].targets[0].id}.deleted)"):
            x = body[0].targets[0].id
            expr = f"match {_vlookup(body[0].value, v)} with\n  | some {x} => !{x}.deleted\n  | none => false"
        else:
            raise Unsupported(f"validator {vn}: " + " ; ".join(_u(b) for b in body)[:90])
        L += [f"/-- the validator `{cn}.{vn}`, translated -/", f"def {nm} {V} {binders} : Bool :=", "  " + expr, ""]
    L += ["/-- the number of options each validator insists on before it looks anything up -/",
          "def validatorArity : List (String × Nat) := [" + ", ".join(f"({json.dumps(a)}, {k})" for a, k in arities) + "]", ""]
    return L


# ---------------------------------------------------------------------------------------------- the routes of FileSystem._init_request_manager
# Every `add_request(name, RequestType(func=…, validator=…))` of FileSystem._init_request_manager becomes a Lean function that composes the
# TRANSLATED validator(s) with the TRANSLATED handler / method the route's func names:
#     func = lambda request, context: RequestResponse.from_bool(self.<m>(folder_name=request[0][, file_name=request[1]]))
#            with m in delete_file, delete_folder, restore_file, restore_folder           fromBool (<fs m> s r0 [r1])
#     func = one of the translated handler closures                                          h… s r0 [r1 [r2]]
#     func = a sub-manager / `_file_action`                                                  only the guard is emitted (route…Guard)
#     validator = self._a [+ self._b]        (attributes bound in the same method: `self._a = FileSystem._XValidator(file_system=self)`)
#                                                                                            if !(v… && v…) then (s, .failure) else …
ROUTE_METHODS = {"delete_file": ("fsDeleteFile", 2), "delete_folder": ("fsDeleteFolder", 1), "restore_file": ("fsRestoreFile", 2),
                 "restore_folder": ("fsRestoreFolder", 1)}


def _route_methods() -> List[str]:
    from harness.extract.filesystem import FS, _add_requests
    irm = find_method(class_def(parse(FS), "FileSystem"), "_init_request_manager")
    binds = {}
    for st in irm.body:
        if isinstance(st, ast.Assign) and isinstance(st.value, ast.Call) and "Validator" in _u(st.value.func):
            if [k.arg for k in st.value.keywords] != ["file_system"] or _u(st.value.keywords[0].value) != "self" or st.value.args:
                raise Unsupported("validator binding " + _u(st))
            binds[_u(st.targets[0])] = _u(st.value.func)
    vnames = {f"{cn}.{vn}": (nm, b.count("r")) for _, cn, vn, nm, v, b in VALIDATORS if v == "s"}
    hnames = {py: (nm, b.count("r")) for py, nm, b in HANDLERS}
    L: List[str] = []
    seen = []
    for mgr, name, func, val in _add_requests(irm):
        guards = []
        for part in [x.strip() for x in val.split("+")] if val else []:
            cls = binds.get(part)
            if cls is None or cls not in vnames:
                raise Unsupported(f"route {mgr}/{name}: validator {part}")
            guards.append(vnames[cls])
        key = ("route" + "".join(w.capitalize() for w in (mgr.replace("self.", "").replace("_manager", "").strip("_") or "rm").split("_"))
               + name.capitalize())
        body = None
        ar = max([a for _, a in guards], default=0)
        f = ast.parse(func, mode="eval").body
        if isinstance(f, ast.Lambda):
            c = f.body
            if not (isinstance(c, ast.Call) and _u(c.func) == "RequestResponse.from_bool" and len(c.args) == 1 and isinstance(c.args[0], ast.Call)
                    and _u(c.args[0].func).startswith("self.") and _u(c.args[0].func)[5:] in ROUTE_METHODS):
                raise Unsupported(f"route {mgr}/{name}: " + func[:80])
            lean, n = ROUTE_METHODS[_u(c.args[0].func)[5:]]
            args = _kwargs(c.args[0], ("folder_name", "file_name")[:n])
            if args != [f"r{i}" for i in range(n)]:
                raise Unsupported(f"route {mgr}/{name}: options {args}")
            body, ar = f"fromBool ({lean} s {' '.join(args)})", max(ar, n)
        elif func in hnames:
            body, ar = f"{hnames[func][0]} s {' '.join('r%d' % i for i in range(hnames[func][1]))}", max(ar, hnames[func][1])
        binders = " ".join(f"(r{i} : {'Bool' if i == 2 else 'Name'})" for i in range(ar))
        g = " && ".join(f"{nm} s {' '.join('r%d' % i for i in range(a))}" for nm, a in guards)
        if body is None:
            if guards:
                L += [f"/-- the guard of the route `{name}` of `{mgr}` (func `{func}`) -/", f"def {key}Guard (s : State) {binders} : Bool :=", f"  {g}", ""]
                seen.append(key + "Guard")
            continue
        L += [f"/-- the route `{name}` of `{mgr}`: validator `{val or '-'}`, then `{func[:60]}` -/", f"def {key} (s : State) {binders} : State × Out :=",
              (f"  if !({g}) then (s, .failure) else {body}" if guards else f"  {body}"), ""]
        seen.append(key)
    L += ["def routeNames : List String := [" + ", ".join(json.dumps(k) for k in seen) + "]", ""]
    return ["/-- `RequestResponse.from_bool` -/", "def fromBool (r : State × Bool) : State × Out := (r.1, ofBool r.2)", ""] + L


def _folder_route_methods() -> List[str]:
    """The same for `Folder._init_request_manager` (two routes: `delete` = remove_file_by_name, `file` = the file's own manager behind two validators)."""
    from harness.extract.filesystem import _add_requests
    irm = find_method(class_def(parse(FOLDER), "Folder"), "_init_request_manager")
    binds = {}
    for st in irm.body:
        if isinstance(st, ast.Assign) and isinstance(st.value, ast.Call) and "Validator" in _u(st.value.func):
            if [k.arg for k in st.value.keywords] != ["folder"] or _u(st.value.keywords[0].value) != "self" or st.value.args:
                raise Unsupported("validator binding " + _u(st))
            binds[_u(st.targets[0])] = _u(st.value.func)
    vnames = {f"{cn}.{vn}": nm for _, cn, vn, nm, v, b in VALIDATORS if v == "g"}
    L: List[str] = []
    rows = _add_requests(irm)
    if sorted((m, n) for m, n, _, _ in rows) != [("rm", "delete"), ("rm", "file")]:
        raise Unsupported("Folder._init_request_manager: routes " + str([(m, n) for m, n, _, _ in rows]))
    for mgr, name, func, val in rows:
        guards = []
        for part in [x.strip() for x in val.split("+")] if val else []:
            if binds.get(part) not in vnames:
                raise Unsupported(f"folder route {name}: validator {part}")
            guards.append(f"{vnames[binds[part]]} g r0")
        if name == "delete":
            f = ast.parse(func, mode="eval").body
            ok = (isinstance(f, ast.Lambda) and isinstance(f.body, ast.Call) and _u(f.body.func) == "RequestResponse.from_bool" and len(f.body.args) == 1
                  and isinstance(f.body.args[0], ast.Call) and _u(f.body.args[0].func) == "self.remove_file_by_name"
                  and _kwargs(f.body.args[0], ("file_name",)) == ["r0"])
            if not ok:
                raise Unsupported("folder route delete: " + func[:80])
            body = "((folderRemoveFileByName g r0).1, ofBool (folderRemoveFileByName g r0).2)"
            L += ["/-- the route `delete` of a folder's request manager -/", "def folderRouteDelete (g : Folder) (r0 : Name) : Folder × Out :=",
                  (f"  if !({' && '.join(guards)}) then (g, .failure) else {body}" if guards else f"  {body}"), ""]
        else:
            if func != "self._file_request_manager" or not guards:
                raise Unsupported("folder route file: " + func[:80])
            L += ["/-- the guard of the route `file` of a folder's request manager (func: the name-keyed manager of the files) -/",
                  "def folderRouteFileGuard (g : Folder) (r0 : Name) : Bool :=", "  " + " && ".join(guards), ""]
    return L

LOOKUP_METHODS = [  # (class, method, lean name, kind, result, parameters (python name -> (lean binder, env kind)))
    ("Folder", "get_file", "folderGetFile", "folder", "optfile", [("file_name", "Name", None), ("include_deleted", "Bool", "bool")]),
    ("Folder", "remove_file", "folderRemoveFile", "folder", "unit", [("file", "File", "file")]),
    ("Folder", "remove_file_by_name", "folderRemoveFileByName", "folder", "bool", [("file_name", "Name", None)]),
    ("FileSystem", "get_folder", "fsGetFolder", "fs", "optfolder", [("folder_name", "Name", None), ("include_deleted", "Bool", "bool")]),
    ("FileSystem", "get_file", "fsGetFile", "fs", "optfile", [("folder_name", "Name", "name"), ("file_name", "Name", "name"), ("include_deleted", "Bool", "bool")]),
    ("FileSystem", "create_folder", "fsCreateFolder", "fs", "folder", [("folder_name", "Name", "name")]),
    ("FileSystem", "create_file", "fsCreateFile", "fs", "file!", [("file_name", "Name", "name"), ("size", None, None), ("file_type", None, None),
                                                                   ("folder_name", "Name", "name"), ("force", "Bool", "bool")]),
    ("FileSystem", "pre_timestep", "fsPreTimestep", "fs", "unit", [("timestep", None, None)]),
    ("FileSystem", "setup_for_episode", "fsSetupForEpisode", "fs", "unit", [("episode", None, None)]),
    ("FileSystem", "__init__", "fsInitMethod", "fs", "unit", [("kwargs", None, None)]),
    ("FileSystem", "access_file", "fsAccessFile", "fs", "bool", [("folder_name", "Name", "name"), ("file_name", "Name", "name")]),
    ("FileSystem", "delete_file", "fsDeleteFile", "fs", "bool", [("folder_name", "Name", None), ("file_name", "Name", None)]),
    ("FileSystem", "restore_file", "fsRestoreFile", "fs", "bool", [("folder_name", "Name", None), ("file_name", "Name", None)]),
    ("FileSystem", "restore_folder", "fsRestoreFolder", "fs", "bool", [("folder_name", "Name", "name")]),
    ("FileSystem", "delete_folder", "fsDeleteFolder", "fs", "bool", [("folder_name", "Name", "name")]),
    # round 7, second batch: the uuid-keyed API and the loop of remove_all_files
    ("Folder", "get_file_by_id", "folderGetFileById", "folder", "optfile", [("file_uuid", "Nat", "uuid"), ("include_deleted", "Bool", "bool")]),
    ("Folder", "remove_file_by_id", "folderRemoveFileById", "folder", "unit!", [("file_uuid", "Nat", "uuid")]),
    ("Folder", "remove_all_files", "folderRemoveAllFiles", "folder", "unit", []),
    ("FileSystem", "get_folder_by_id", "fsGetFolderById", "fs", "optfolder", [("folder_uuid", "Nat", "uuid"), ("include_deleted", "Bool", "bool")]),
    ("FileSystem", "delete_file_by_id", "fsDeleteFileById", "fs", "unit!", [("folder_uuid", "Nat", "uuid"), ("file_uuid", "Nat", "uuid")]),
    ("FileSystem", "delete_folder_by_id", "fsDeleteFolderById", "fs", "unit!", [("folder_uuid", "Nat", "uuid")]),
    ("FileSystem", "move_file", "fsMoveFile", "fs", "unit!", [("src_folder_name", "Name", "name"), ("src_file_name", "Name", "name"),
                                                              ("dst_folder_name", "Name", "name")]),
    ("FileSystem", "copy_file", "fsCopyFile", "fs", "unit!", [("src_folder_name", "Name", "name"), ("src_file_name", "Name", "name"),
                                                              ("dst_folder_name", "Name", "name")]),
]
RESULT_TYPE = {("folder", "optfile"): "Option File", ("folder", "unit"): "Folder", ("folder", "bool"): "Folder × Bool",
               ("fs", "optfolder"): "Option Folder", ("fs", "bool"): "State × Bool", ("fs", "optfile"): "Option File",
               ("fs", "folder"): "State × Folder", ("fs", "file!"): "State × Option File", ("fs", "unit"): "State",
               ("fs", "unit!"): "State × Bool", ("folder", "unit!"): "Folder × Bool"}

FILE_METHODS = [("restore", "fileRestore"), ("delete", "fileDelete"), ("scan", "fileScan"), ("repair", "fileRepair"),
                ("corrupt", "fileCorrupt"), ("check_hash", "fileCheckHash")]
FOLDER_METHODS = [("restore", "folderRestore"), ("delete", "folderDelete"), ("check_hash", "folderCheckHash")]
FOLDER_UNIT_METHODS = [("_restoring_timestep", "folderRestoringTimestep")]
TRANSLATED = (["Folder.restore_file", "Folder.add_file"] + [f"File.{m}" for m, _ in FILE_METHODS]
              + [f"Folder.{m}" for m, _ in FOLDER_METHODS] + [f"Folder.{m}" for m, _ in FOLDER_UNIT_METHODS]
              + [f"{c}.{m}" for c, m, *_ in LOOKUP_METHODS] + list(INERT_ATTRS)
              + [f"{cn}.{m}" for _, cn, m, _ in INERT_METHODS] + ["Folder.apply_timestep", "FileSystem.apply_timestep", "Folder.describe_state", "FileSystem.describe_state",
                 "FileSystem.scan", "FileSystem.reveal_to_red"])


def inlined_helpers() -> dict:
    """Helper name -> number of call sites expanded in place by the last translation (runs the translation; {} when it is refused)."""
    try:
        emit()
    except Exception:
        return {}
    return dict(_INLINED)


def emit() -> str:
    fo = class_def(parse(FOLDER), "Folder")
    _FOLDER_CLS["cls"] = fo
    _INLINED.clear()
    rf = find_method(fo, "restore_file")
    af = find_method(fo, "add_file")
    if [a.arg for a in rf.args.args] != ["self", "file_name"] or [a.arg for a in af.args.args] != ["self", "file", "force"]:
        raise Unsupported("signature of restore_file / add_file")
    from harness.extract.filesystem import FILE
    fi = class_def(parse(FILE), "File")
    R: List[str] = []
    for cls, item, rec, table in ((fi, "f", "FileRec", FILE_METHODS), (fo, "g", "FolderRec", FOLDER_METHODS)):
        for m, nm in table:
            fn = find_method(cls, m)
            if [a.arg for a in fn.args.args] != ["self"]:
                raise Unsupported(f"signature of {cls.name}.{m}")
            R += [f"/-- `{cls.name}.{m}`, translated statement by statement onto `{rec}` -/",
                  f"def {nm} (r : {rec}) : {rec} × Bool :=", _rstmts(list(fn.body), item, 1), ""]
    for m, nm in FOLDER_UNIT_METHODS:
        fn = find_method(fo, m)
        if [a.arg for a in fn.args.args] != ["self"]:
            raise Unsupported(f"signature of Folder.{m}")
        R += [f"/-- `Folder.{m}`, translated statement by statement onto `FolderRec` -/",
              f"def {nm} (r : FolderRec) : FolderRec :=", _rstmts(list(fn.body), "g", 1, unit=True), ""]
    from harness.extract.filesystem import FS
    fsc = class_def(parse(FS), "FileSystem")
    _check_inert_methods()
    for cn, m, nm, kind, res, params in LOOKUP_METHODS:
        fn = find_method(fo if cn == "Folder" else fsc, m)
        sig = [a.arg for a in fn.args.args] + ([fn.args.kwarg.arg] if fn.args.kwarg else [])
        if sig != ["self"] + [p for p, _, _ in params]:
            raise Unsupported(f"signature of {cn}.{m}")
        env = {p: k for p, _, k in params if k}
        env["@method"] = m
        binders = " ".join(f"({p} : {t})" for p, t, _ in params if t)
        V = "(g : Folder)" if kind == "folder" else "(s : State)"
        R += [f"/-- `{cn}.{m}`, translated statement by statement -/",
              f"def {nm} {V} {binders} : {RESULT_TYPE[(kind, res)]} :=", _lstmts(list(fn.body), kind, res, env, 1), ""]
    R += _tick_methods()
    R += _describe_methods()
    R += _handler_methods()
    R += _route_methods()
    R += _folder_route_methods()
    L = ["import PrimaiteModel.Model.FileSystemHealth", "namespace Primaite.Gen.FileSystemMethods", "open Primaite.FileSystem", "",
         "/-- `Folder.restore_file`, translated statement by statement -/",
         "def folderRestoreFile (g : Folder) (file_name : Name) : Folder × Bool :=",
         _stmts(_clean(rf), set(), True, 1), "",
         "/-- `Folder.add_file`, translated statement by statement (`none` = raises) -/",
         "def folderAddFile (g : Folder) (file : File) (force : Bool) : Option Folder :=",
         _stmts(_clean(af), set(), False, 1), ""] + R + ["end Primaite.Gen.FileSystemMethods", ""]
    return "\n".join(L)
