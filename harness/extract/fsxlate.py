"""Statement-by-statement translation of the Folder methods that carry C15's repairs (`restore_file`, `add_file`) into
Lean definitions over the model's types (Gen/FileSystemMethods.lean). Props/C15Api.lean proves them EQUAL to the model's
functions for all inputs (`C15_gen_restore_file`, `C15_gen_add_file`), so a harmless refactor (renamed local, reordered
independent statements that still translate to an equal function, reworded log message, comments) keeps the obligation,
while a semantic edit breaks the proof and a statement outside the vocabulary breaks the extractor.

Vocabulary (strict; anything else raises Unsupported):
    X = self.get_file(N[, include_deleted=True])         let X := g.getFile N incl            (X : Option File)
    if not X: return False                               match X with | none => (g, false) | some X => …
    if <type guard on file>: raise …                     skipped (the model's input is typed)
    if <cond>: raise …                                   if cond then none else …
    if X is not None and X.uuid != Y.uuid: self.remove_file(X)
                                                         let g := match X with | some e => if e.id != Y.id then g.removeFile e else g | none => g
    X.restore()                                          let X := X.restore
    self.files[X.uuid] = X                               let g := { g with files := dictSet File.id g.files X }
    self.deleted_files.pop(X.uuid, None)                 let g := { g with deletedFiles := dictPop File.id g.deletedFiles X.id }
    self._file_request_manager.add_request(X.name, RequestType(func=X._request_manager))
                                                         let g := { g with fileRoutes := (X.name, X.id) :: g.fileRoutes }
    X.folder = self                                      skipped (back reference, not part of the structure)
    return True / fall off the end                       (g, true) / some g
Logging statements and docstrings are dropped first (as in extract/filesystem.py)."""
import ast
from typing import List

from harness.extract.filesystem import FOLDER, _is_syslog
from harness.extract.util import class_def, find_method, parse

GEN_NAME = "FileSystemMethods"


class Unsupported(Exception):
    pass


def _u(n: ast.AST) -> str:
    return ast.unparse(n)


def _expr(e: ast.AST) -> str:
    """Value expressions: parameter / local names, `.name`, `.uuid`."""
    if isinstance(e, ast.Name):
        return e.id
    if isinstance(e, ast.Attribute) and isinstance(e.value, ast.Name) and e.attr in ("name", "uuid"):
        return f"{e.value.id}.{'id' if e.attr == 'uuid' else 'name'}"
    raise Unsupported("expression " + _u(e))


def _get_file(call: ast.AST) -> str:
    if not (isinstance(call, ast.Call) and _u(call.func) == "self.get_file"):
        raise Unsupported("call " + _u(call))
    kws = {k.arg: k.value for k in call.keywords}
    name = kws.get("file_name", call.args[0] if call.args else None)
    incl = kws.get("include_deleted")
    if name is None or (incl is not None and not isinstance(incl, ast.Constant)):
        raise Unsupported("get_file arguments " + _u(call))
    return f"(g.getFile {_expr(name)} {'true' if incl is not None and incl.value else 'false'})"


def _cond(e: ast.AST) -> str:
    if isinstance(e, ast.BoolOp):
        op = " && " if isinstance(e.op, ast.And) else " || "
        return "(" + op.join(_cond(v) for v in e.values) + ")"
    if isinstance(e, ast.UnaryOp) and isinstance(e.op, ast.Not):
        return f"(!{_cond(e.operand)})"
    if isinstance(e, ast.Name) and e.id == "force":
        return "force"
    if isinstance(e, ast.Compare) and len(e.ops) == 1:
        l, r, op = e.left, e.comparators[0], e.ops[0]
        if isinstance(op, ast.IsNot) and isinstance(r, ast.Constant) and r.value is None:
            return f"({_get_file(l)}).isSome"
        if isinstance(op, ast.In) and _u(r) == "self.files" and isinstance(l, ast.Attribute) and l.attr == "uuid":
            return f"(g.files.any (fun y => y.id == {_expr(l)}))"
    raise Unsupported("condition " + _u(e))


def _is_type_guard(test: ast.AST) -> bool:
    return _u(test) in ("file is None or not isinstance(file, File)",)


def _stmts(body: List[ast.stmt], opt: set, bool_result: bool, ind: int) -> str:
    pad = "  " * ind
    if not body:
        if bool_result:
            raise Unsupported("bool method falls off the end")
        return pad + "some g"
    st, rest = body[0], body[1:]
    if isinstance(st, ast.Return):
        if not (bool_result and isinstance(st.value, ast.Constant) and isinstance(st.value.value, bool)):
            raise Unsupported("return " + _u(st))
        return pad + f"(g, {'true' if st.value.value else 'false'})"
    if isinstance(st, ast.Assign) and len(st.targets) == 1:
        tgt = st.targets[0]
        if isinstance(tgt, ast.Name):
            return pad + f"let {tgt.id} := {_get_file(st.value)}\n" + _stmts(rest, opt | {tgt.id}, bool_result, ind)
        if isinstance(tgt, ast.Subscript) and _u(tgt.value) == "self.files" and _u(tgt.slice) == _u(st.value) + ".uuid":
            return pad + f"let g := {{ g with files := dictSet File.id g.files {_expr(st.value)} }}\n" + _stmts(rest, opt, bool_result, ind)
        if isinstance(tgt, ast.Attribute) and tgt.attr == "folder" and _u(st.value) == "self":
            return _stmts(rest, opt, bool_result, ind)
        raise Unsupported("assignment " + _u(st))
    if isinstance(st, ast.Expr) and isinstance(st.value, ast.Call):
        c = st.value
        f = _u(c.func)
        if isinstance(c.func, ast.Attribute) and isinstance(c.func.value, ast.Name) and c.func.attr == "restore" and not c.args:
            x = c.func.value.id
            if x in opt:
                raise Unsupported(f"{x}.restore() on a value that may be None")
            return pad + f"let {x} := {x}.restore\n" + _stmts(rest, opt, bool_result, ind)
        if f == "self.deleted_files.pop" and len(c.args) == 2 and _u(c.args[1]) == "None":
            return pad + f"let g := {{ g with deletedFiles := dictPop File.id g.deletedFiles {_expr(c.args[0])} }}\n" + _stmts(rest, opt, bool_result, ind)
        if f == "self._file_request_manager.add_request" and len(c.args) == 2:
            rt = c.args[1]
            if not (isinstance(rt, ast.Call) and _u(rt.func) == "RequestType" and len(rt.keywords) == 1 and rt.keywords[0].arg == "func"):
                raise Unsupported("route " + _u(st))
            owner = rt.keywords[0].value
            if not (isinstance(owner, ast.Attribute) and owner.attr == "_request_manager" and isinstance(c.args[0], ast.Attribute)
                    and c.args[0].attr == "name" and _u(c.args[0].value) == _u(owner.value)):
                raise Unsupported("route " + _u(st))
            x = _u(owner.value)
            return pad + f"let g := {{ g with fileRoutes := ({x}.name, {x}.id) :: g.fileRoutes }}\n" + _stmts(rest, opt, bool_result, ind)
        raise Unsupported("call " + _u(st))
    if isinstance(st, ast.If) and not st.orelse:
        inner = [s for s in st.body if not _is_syslog(s)]
        # `if not X: return False`
        if (isinstance(st.test, ast.UnaryOp) and isinstance(st.test.op, ast.Not) and isinstance(st.test.operand, ast.Name)
                and st.test.operand.id in opt and len(inner) == 1 and isinstance(inner[0], ast.Return)):
            x = st.test.operand.id
            return (pad + f"match {x} with\n" + pad + "| none => " + _stmts(inner, opt, bool_result, 0).strip() + "\n"
                    + pad + f"| some {x} =>\n" + _stmts(rest, opt - {x}, bool_result, ind + 1))
        if len(inner) == 1 and isinstance(inner[0], ast.Raise):
            if _is_type_guard(st.test):
                return _stmts(rest, opt, bool_result, ind)
            if bool_result:
                raise Unsupported("raise in a bool method")
            return pad + f"if {_cond(st.test)} then none else\n" + _stmts(rest, opt, bool_result, ind)
        # `if X is not None and X.uuid != Y.uuid: self.remove_file(X)`
        t = st.test
        if (isinstance(t, ast.BoolOp) and isinstance(t.op, ast.And) and len(t.values) == 2 and len(inner) == 1
                and isinstance(t.values[0], ast.Compare) and isinstance(t.values[0].ops[0], ast.IsNot)
                and isinstance(t.values[0].left, ast.Name) and t.values[0].left.id in opt
                and isinstance(t.values[1], ast.Compare) and isinstance(t.values[1].ops[0], ast.NotEq)):
            x = t.values[0].left.id
            a, b = t.values[1].left, t.values[1].comparators[0]
            if _u(a) != f"{x}.uuid" or _u(inner[0]) != f"self.remove_file({x})":
                raise Unsupported("conditional " + _u(st))
            return (pad + f"let g := match {x} with\n{pad}  | some {x} => if {x}.id != {_expr(b)} then g.removeFile {x} else g\n{pad}  | none => g\n"
                    + _stmts(rest, opt, bool_result, ind))
        raise Unsupported("if " + _u(st.test))
    raise Unsupported("statement " + _u(st)[:80])


def _clean(fn: ast.FunctionDef) -> List[ast.stmt]:
    out = []
    for st in fn.body:
        if isinstance(st, ast.Expr) and isinstance(st.value, ast.Constant) and isinstance(st.value.value, str):
            continue
        if _is_syslog(st):
            continue
        out.append(st)
    return out


# ---------------------------------------------------------------------------------------------- record methods (round 4)
# Methods of File / Folder that touch only the object's own fields, translated onto `FileRec` / `FolderRec` (structure + health):
#     return True / False                                   (r, true) / (r, false)
#     self.deleted = True / False                           let r := { r with <item> := { r.<item> with deleted := … } }
#     self.health_status = FileSystemItemHealthStatus.X     let r := { r with health := .x }
#     self.visible_health_status = self.health_status | …X  let r := { r with visible := r.health | .x }
#     self.num_access += 1                                  let r := { r with acc := r.acc + 1 }                       (File)
#     self.restore_countdown = max(self.restore_duration, 1)  let r := { r with g := { r.g with restoreCountdown := max … 1 } }  (Folder)
#     if <cond>: … [elif/else: …]                           if … then T(body ++ rest) else T(orelse ++ rest)   (continuation passing:
#                                                           a branch that returns ends there; code after a `return` is dead)
#     cond: self.deleted | self.health_status == …X | self.health_status in [X, Y] | self.restore_countdown <= 0 | not / and / or
#     logging, docstrings, warnings.warn(...), `path = …` (string for the log)            skipped
HEALTH = "FileSystemItemHealthStatus."


def _health(e: ast.AST) -> str:
    u = _u(e)
    if not u.startswith(HEALTH):
        raise Unsupported("health value " + u)
    return "Health." + u[len(HEALTH):].lower()


def _rcond(e: ast.AST, item: str) -> str:
    if isinstance(e, ast.BoolOp):
        op = " && " if isinstance(e.op, ast.And) else " || "
        return "(" + op.join(_rcond(v, item) for v in e.values) + ")"
    if isinstance(e, ast.UnaryOp) and isinstance(e.op, ast.Not):
        return f"(!{_rcond(e.operand, item)})"
    u = _u(e)
    if u == "self.deleted":
        return f"r.{item}.deleted"
    if isinstance(e, ast.Compare) and len(e.ops) == 1:
        l, r, op = _u(e.left), e.comparators[0], e.ops[0]
        fld = {"self.health_status": "r.health", "self.visible_health_status": "r.visible"}.get(l)
        if fld and isinstance(op, ast.Eq):
            return f"({fld} == {_health(r)})"
        if fld and isinstance(op, ast.NotEq):
            return f"({fld} != {_health(r)})"
        if fld and isinstance(op, ast.In) and isinstance(r, ast.List):
            return "(" + " || ".join(f"{fld} == {_health(x)}" for x in r.elts) + ")"
        if item == "g" and l == "self.restore_countdown" and isinstance(op, ast.LtE) and _u(r) == "0":
            return "decide (r.g.restoreCountdown ≤ 0)"
    raise Unsupported("condition " + u)


def _rskip(st: ast.stmt) -> bool:
    if isinstance(st, ast.Expr) and isinstance(st.value, ast.Constant):
        return True
    if _is_syslog(st):
        return True
    if isinstance(st, ast.Expr) and isinstance(st.value, ast.Call) and _u(st.value.func) == "warnings.warn":
        return True
    if isinstance(st, ast.Assign) and len(st.targets) == 1 and isinstance(st.targets[0], ast.Name) and st.targets[0].id in ("path", "msg"):
        if any(isinstance(n, ast.Call) for n in ast.walk(st.value)):
            raise Unsupported("call inside a log string " + _u(st))
        return True
    return False


def _rstmts(body: List[ast.stmt], item: str, ind: int) -> str:
    pad = "  " * ind
    body = [st for st in body if not _rskip(st)]
    if not body:
        raise Unsupported("a method that answers falls off the end")
    st, rest = body[0], body[1:]
    if isinstance(st, ast.Return):
        if not (isinstance(st.value, ast.Constant) and isinstance(st.value.value, bool)):
            raise Unsupported("return " + _u(st))
        return pad + f"(r, {'true' if st.value.value else 'false'})"
    if isinstance(st, ast.If):
        return (pad + f"if {_rcond(st.test, item)} then\n" + _rstmts(list(st.body) + rest, item, ind + 1) + "\n" + pad + "else\n"
                + _rstmts(list(st.orelse) + rest, item, ind + 1))
    if isinstance(st, ast.Assign) and len(st.targets) == 1:
        t, v = _u(st.targets[0]), st.value
        if t == "self.deleted" and isinstance(v, ast.Constant) and isinstance(v.value, bool):
            return pad + f"let r := {{ r with {item} := {{ r.{item} with deleted := {'true' if v.value else 'false'} }} }}\n" + _rstmts(rest, item, ind)
        if t == "self.health_status":
            return pad + f"let r := {{ r with health := {_health(v)} }}\n" + _rstmts(rest, item, ind)
        if t == "self.visible_health_status":
            val = "r.health" if _u(v) == "self.health_status" else _health(v)
            return pad + f"let r := {{ r with visible := {val} }}\n" + _rstmts(rest, item, ind)
        if item == "g" and t == "self.restore_countdown" and _u(v) == "max(self.restore_duration, 1)":
            return pad + "let r := { r with g := { r.g with restoreCountdown := max r.g.restoreDuration 1 } }\n" + _rstmts(rest, item, ind)
        raise Unsupported("assignment " + _u(st))
    if isinstance(st, ast.AugAssign) and item == "f" and _u(st.target) == "self.num_access" and isinstance(st.op, ast.Add) and _u(st.value) == "1":
        return pad + "let r := { r with acc := r.acc + 1 }\n" + _rstmts(rest, item, ind)
    raise Unsupported("statement " + _u(st)[:80])


FILE_METHODS = [("restore", "fileRestore"), ("delete", "fileDelete"), ("scan", "fileScan"), ("repair", "fileRepair"),
                ("corrupt", "fileCorrupt"), ("check_hash", "fileCheckHash")]
FOLDER_METHODS = [("restore", "folderRestore"), ("delete", "folderDelete"), ("check_hash", "folderCheckHash")]
TRANSLATED = (["Folder.restore_file", "Folder.add_file"] + [f"File.{m}" for m, _ in FILE_METHODS]
              + [f"Folder.{m}" for m, _ in FOLDER_METHODS])


def emit() -> str:
    fo = class_def(parse(FOLDER), "Folder")
    rf = find_method(fo, "restore_file")
    af = find_method(fo, "add_file")
    if [a.arg for a in rf.args.args] != ["self", "file_name"] or [a.arg for a in af.args.args] != ["self", "file", "force"]:
        raise Unsupported("signature of restore_file / add_file")
    from harness.extract.filesystem import FILE
    fi = class_def(parse(FILE), "File")
    R: List[str] = []
    for cls, item, rec, table in ((fi, "f", "FileRec", FILE_METHODS), (fo, "g", "FolderRec", FOLDER_METHODS)):
        for m, nm in table:
            fn = find_method(cls, m)
            if [a.arg for a in fn.args.args] != ["self"]:
                raise Unsupported(f"signature of {cls.name}.{m}")
            R += [f"/-- `{cls.name}.{m}`, translated statement by statement onto `{rec}` -/",
                  f"def {nm} (r : {rec}) : {rec} × Bool :=", _rstmts(list(fn.body), item, 1), ""]
    L = ["import PrimaiteModel.Model.FileSystemHealth", "namespace Primaite.Gen.FileSystemMethods", "open Primaite.FileSystem", "",
         "/-- `Folder.restore_file`, translated statement by statement -/",
         "def folderRestoreFile (g : Folder) (file_name : Name) : Folder × Bool :=",
         _stmts(_clean(rf), set(), True, 1), "",
         "/-- `Folder.add_file`, translated statement by statement (`none` = raises) -/",
         "def folderAddFile (g : Folder) (file : File) (force : Bool) : Option Folder :=",
         _stmts(_clean(af), set(), False, 1), ""] + R + ["end Primaite.Gen.FileSystemMethods", ""]
    return "\n".join(L)
