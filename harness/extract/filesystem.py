"""Extractor for C15 (E4/E5/E7/E8 restricted to the file system): request tree, validators, item verbs, method guards,
constants, action request templates, and the cleaned bodies of the methods the model transcribes.
Pure `ast`; strict: an unrecognised shape raises."""
import ast
import re
from typing import Dict, List, Optional, Tuple

from harness.extract.util import class_def, find_method, parse

GEN_NAME = "FileSystem"

FS = "simulator/file_system/file_system.py"
FOLDER = "simulator/file_system/folder.py"
FILE = "simulator/file_system/file.py"
ITEM = "simulator/file_system/file_system_item_abc.py"
ACT_FILE = "game/agent/actions/file.py"
ACT_FOLDER = "game/agent/actions/folder.py"

# the methods whose logic the model transcribes (docstrings and sys_log calls removed before comparison)
TRANSCRIBED = {
    # round 7: setup_for_episode, create_folder, create_file, get_file, pre_timestep are TRANSLATED (fsxlate, Props/C15Create.lean);
    # Folder.pre_timestep / File.pre_timestep are checked to be structurally inert by fsxlate._check_inert_methods
    # second batch: copy_file, delete_file_by_id, delete_folder_by_id, get_folder_by_id, Folder.get_file_by_id / remove_file_by_id / remove_all_files
    # third batch: FileSystem.apply_timestep / Folder.apply_timestep translated; Folder._scan_timestep / scan / repair / corrupt checked inert
    # fourth batch: move_file translated too — no method of the four classes is under the textual tie any more (the request handlers
    # and validators still are: fsHandlers / validators)
    ("FileSystem", FS): [],
    # restore_file and add_file are tied semantically instead (extract/fsxlate.py, C15_gen_restore_file / C15_gen_add_file)
    ("Folder", FOLDER): [],
    # File.restore/delete/scan/repair/corrupt/check_hash and Folder.restore/delete/check_hash are translated onto records that
    # carry health (extract/fsxlate.py, C15_gen_file_methods / C15_gen_folder_methods)
    ("File", FILE): [],
}
GUARDED = {("Folder", FOLDER): ["scan", "repair", "corrupt", "check_hash"], ("File", FILE): ["scan", "repair", "corrupt", "check_hash"]}


def lean_str(s: str) -> str:
    return '"' + s.replace("\\", "\\\\").replace('"', '\\"').replace("\n", "\\n") + '"'


def _kw(call: ast.Call, name: str, pos: Optional[int] = None) -> Optional[ast.AST]:
    for k in call.keywords:
        if k.arg == name:
            return k.value
    if pos is not None and pos < len(call.args):
        return call.args[pos]
    return None


def _is_syslog(st: ast.stmt) -> bool:
    return (isinstance(st, ast.Expr) and isinstance(st.value, ast.Call)
            and ast.unparse(st.value.func).startswith(("self.sys_log.", "_LOGGER.")))


class _Clean(ast.NodeTransformer):
    """Drop docstrings and logging statements; an emptied block becomes `pass`."""

    def _body(self, body: List[ast.stmt]) -> List[ast.stmt]:
        out = []
        for i, st in enumerate(body):
            if isinstance(st, ast.Expr) and isinstance(st.value, ast.Constant) and isinstance(st.value.value, str):
                continue
            if _is_syslog(st):
                continue
            if isinstance(st, ast.Assign) and ast.unparse(st.targets[0]) in ("msg", "path"):
                continue  # message strings for the log
            out.append(self.visit(st))
        return out or [ast.Pass()]

    def generic_visit(self, node):
        for field in ("body", "orelse", "finalbody"):
            if isinstance(getattr(node, field, None), list) and getattr(node, field):
                setattr(node, field, self._body(getattr(node, field)))
        return node


def cleaned(fn: ast.FunctionDef) -> str:
    import copy
    f = copy.deepcopy(fn)
    f.decorator_list = []
    f.returns = None
    for a in f.args.args + f.args.kwonlyargs:
        a.annotation = None
    f = _Clean().visit(f)
    return ast.unparse(ast.fix_missing_locations(f))


def _add_requests(fn: ast.FunctionDef) -> List[Tuple[str, str, str, str]]:
    """Every `<mgr>.add_request(name, RequestType(func=…, validator=…))` in order: (manager, name, func, validator)."""
    rows = []
    for node in ast.walk(fn):
        if isinstance(node, ast.Call) and isinstance(node.func, ast.Attribute) and node.func.attr == "add_request":
            name = _kw(node, "name", 0)
            rt = _kw(node, "request_type", 1)
            if not (isinstance(name, ast.Constant) and isinstance(name.value, str)):
                raise ValueError(f"add_request with a non-literal name in {fn.name}: {ast.unparse(node)[:80]}")
            if not (isinstance(rt, ast.Call) and ast.unparse(rt.func) == "RequestType"):
                raise ValueError(f"add_request without RequestType(...) in {fn.name}")
            func = _kw(rt, "func")
            val = _kw(rt, "validator")
            if func is None:
                raise ValueError("RequestType without func")
            rows.append((node.lineno, ast.unparse(node.func.value), name.value, ast.unparse(func), ast.unparse(val) if val else ""))
    rows.sort()
    return [r[1:] for r in rows]


def _validator_expr(cls: ast.ClassDef, name: str) -> str:
    v = next((n for n in cls.body if isinstance(n, ast.ClassDef) and n.name == name), None)
    if v is None:
        raise ValueError(f"validator {cls.name}.{name} not found")
    call = find_method(v, "__call__")
    body = [st for st in call.body if not (isinstance(st, ast.Expr) and isinstance(st.value, ast.Constant))]
    return "; ".join(ast.unparse(st) for st in body)


def _refuses_deleted(fn: ast.FunctionDef) -> bool:
    """First effective statement is `if self.deleted: …; return False`, or the method is the unimplemented
    `check_hash` that returns False unconditionally."""
    body = [st for st in fn.body if not (isinstance(st, ast.Expr) and isinstance(st.value, ast.Constant)) and not _is_syslog(st)]
    body = [st for st in body if not (isinstance(st, ast.Expr) and ast.unparse(st).startswith("warnings.warn"))]
    st = body[0]
    if isinstance(st, ast.Return):
        if ast.unparse(st.value) != "False":
            raise ValueError(f"{fn.name}: unconditional return of {ast.unparse(st.value)}")
        return True
    if isinstance(st, ast.If) and ast.unparse(st.test) == "self.deleted":
        inner = [s for s in st.body if not _is_syslog(s)]
        if len(inner) == 1 and isinstance(inner[0], ast.Return) and ast.unparse(inner[0].value) == "False":
            return True
    raise ValueError(f"{fn.name}: does not start with the deleted-guard")


def _returns_true_otherwise(fn: ast.FunctionDef) -> bool:
    last = fn.body[-1]
    return isinstance(last, ast.Return) and ast.unparse(last.value) == "True"


def _field_default(cls: ast.ClassDef, field: str):
    for st in cls.body:
        if isinstance(st, ast.AnnAssign) and ast.unparse(st.target) == field:
            if isinstance(st.value, ast.Constant):
                return st.value.value
            return ast.unparse(st.value)
    raise ValueError(f"{cls.name}.{field} not found")


# ------------------------------------------------------------------------------------------ actions
def _camel(disc: str) -> str:
    parts = disc.split("-")
    return parts[0] + "".join(p.capitalize() for p in parts[1:])


def _actions(rel: str) -> List[Tuple[str, List[str], List[str]]]:
    """(discriminator, parameter names, template elements as Lean terms) for every registered action class of a module."""
    tree = parse(rel)
    classes: Dict[str, ast.ClassDef] = {n.name: n for n in tree.body if isinstance(n, ast.ClassDef)}
    out = []
    for cls in classes.values():
        disc = next((k.value.value for k in cls.keywords if k.arg == "discriminator"), None)
        if disc is None:
            continue
        # the verb literal of this class's ConfigSchema
        schema = next((n for n in cls.body if isinstance(n, ast.ClassDef) and n.name == "ConfigSchema"), None)
        if schema is None:
            raise ValueError(f"{cls.name} has no ConfigSchema")
        verb = None
        for st in schema.body:
            if isinstance(st, ast.AnnAssign) and ast.unparse(st.target) == "verb":
                verb = st.value.value
        # form_request: own, else the first base's (one level is all these modules use)
        fr = next((n for n in cls.body if isinstance(n, ast.FunctionDef) and n.name == "form_request"), None)
        if fr is None:
            for b in cls.bases:
                base = classes.get(ast.unparse(b))
                if base is not None:
                    fr = next((n for n in base.body if isinstance(n, ast.FunctionDef) and n.name == "form_request"), None)
                    if fr is not None:
                        break
        if fr is None:
            raise ValueError(f"{cls.name}: no form_request found")
        stmts = [st for st in fr.body if not (isinstance(st, ast.Expr) and isinstance(st.value, ast.Constant))]
        if not (len(stmts) == 2 and isinstance(stmts[0], ast.If) and ast.unparse(stmts[0].body[0]) == "return ['do-nothing']"
                and isinstance(stmts[1], ast.Return) and isinstance(stmts[1].value, ast.List)):
            raise ValueError(f"{cls.name}.form_request: unrecognised shape")
        params, elems = [], []
        for e in stmts[1].value.elts:
            if isinstance(e, ast.Constant) and isinstance(e.value, str):
                elems.append(lean_str(e.value))
            elif isinstance(e, ast.Attribute) and ast.unparse(e.value) == "config":
                if e.attr == "verb":
                    if verb is None:
                        raise ValueError(f"{cls.name}: config.verb without a literal verb")
                    elems.append(lean_str(verb))
                else:
                    if e.attr not in params:
                        params.append(e.attr)
                    elems.append(e.attr)
            else:
                raise ValueError(f"{cls.name}.form_request: unrecognised element {ast.unparse(e)}")
        out.append((disc, params, elems))
    return out


def _health_table(classes) -> Tuple[List[Tuple[str, str, str]], List[Tuple[str, str]], List[str]]:
    """Where the file-system classes look at health.
    branches: (method, test, statements the test controls — if-body `|` else-body) for every `if` whose test mentions
              `health_status`;
    reads:    (method, statement) for every other statement that READS health_status (not a plain assignment to it);
    structural: the violations — a health-dependent branch that controls anything but assignments to `self.health_status` /
              `self.visible_health_status` (and logging): a `return`, an assignment to `self.deleted`, a call, a nested test …
              Structure must not depend on health: this list has to stay empty."""
    branches, reads, structural = [], [], []

    def health_only(st: ast.stmt) -> bool:
        if _is_syslog(st) or isinstance(st, ast.Pass):
            return True
        if isinstance(st, ast.Assign) and len(st.targets) == 1:
            return ast.unparse(st.targets[0]) in ("self.health_status", "self.visible_health_status")
        return False

    def walk(body: List[ast.stmt], where: str):
        for st in body:
            if isinstance(st, ast.Expr) and isinstance(st.value, ast.Constant):
                continue
            if isinstance(st, ast.If):
                if "health_status" in ast.unparse(st.test):
                    ctl = [x for x in st.body if not _is_syslog(x)]
                    alt = [x for x in st.orelse if not _is_syslog(x)]
                    branches.append((where, ast.unparse(st.test),
                                     "; ".join(ast.unparse(x) for x in ctl) + (" | " + "; ".join(ast.unparse(x) for x in alt) if alt else "")))
                    for x in ctl + alt:
                        if not health_only(x):
                            structural.append(f"{where}: `{ast.unparse(st.test)}` controls `{ast.unparse(x).splitlines()[0]}`")
                    continue
                walk(st.body, where)
                walk(st.orelse, where)
                continue
            if isinstance(st, (ast.For, ast.While, ast.With, ast.Try)):
                if isinstance(st, ast.For) and "health_status" in ast.unparse(st.iter):
                    reads.append((where, "for … in " + ast.unparse(st.iter)))
                for field in ("body", "orelse", "finalbody"):
                    walk(getattr(st, field, []) or [], where)
                for h in getattr(st, "handlers", []):
                    walk(h.body, where)
                continue
            if isinstance(st, (ast.FunctionDef, ast.ClassDef)):
                continue
            txt = ast.unparse(st)
            if "health_status" in txt and not _is_syslog(st):
                plain = (isinstance(st, ast.Assign) and len(st.targets) == 1
                         and ast.unparse(st.targets[0]) in ("self.health_status", "self.visible_health_status")
                         and "health_status" not in ast.unparse(st.value).replace("FileSystemItemHealthStatus", "").replace("self.health_status", "") )
                if not plain:
                    reads.append((where, txt.replace("\n", " ")))

    for c in classes:
        for fn in c.body:
            if isinstance(fn, ast.FunctionDef):
                walk(fn.body, f"{c.name}.{fn.name}")
    return branches, reads, structural


def _arity(text: str) -> int:
    ks = [int(k) for k in re.findall(r"request\[(\d+)\]", text)]
    return max(ks) + 1 if ks else 0


def _request_table(fs_rows, handlers: Dict[str, str], folder_rows, verbs, file_action: str = "") -> List[List[str]]:
    """The full request table below `file_system`: sub-managers expanded, `<F>` / `<x>` / `<force>` where a handler indexes
    `request[0..2]`, the dynamic folder / file levels followed into Folder's and File's own tables. Strict."""
    subs: Dict[str, list] = {}
    for mgr, name, func, val in fs_rows:
        subs.setdefault(mgr, []).append((name, func))
    item = [v for v, _ in verbs]
    names = ["<F>", "<x>", "<force>"]

    def leaf(prefix: List[str], func: str, argnames: List[str]) -> List[str]:
        text = handlers.get(func, func)
        n = _arity(text)
        if n > len(argnames):
            raise ValueError(f"handler of {prefix} indexes request[{n - 1}]")
        return prefix + argnames[:n]

    out: List[List[str]] = []
    for name, func in subs.get("rm", []):
        if func in subs:  # a static sub-manager
            out += [leaf([name, sub], f, names) for sub, f in subs[func]]
        elif func == "self._folder_request_manager":  # keyed by folder name, then the folder's own table
            out += [[name, "<F>", v] for v in item]
            for mgr, sub, f, val in folder_rows:
                if mgr != "rm":
                    raise ValueError(f"Folder registers {sub} on {mgr}")
                if f == "self._file_request_manager":  # keyed by file name, then the file's own table
                    out += [[name, "<F>", sub, "<x>", v] for v in item]
                else:
                    out.append(leaf([name, "<F>", sub], f, ["<x>"]))
        elif func == file_action:
            # the closure that dispatches into a file's own manager, read structurally by fsxlate.file_action_shape (Gen/FileSystemMethods:
            # hFileActionTarget / hFileActionConsumed, theorem C15_gen_file_action)
            out += [[name, "<F>", "<x>", v] for v in item]
        else:
            out.append(leaf([name], func, names))
    return out


def emit() -> str:
    fs_t, fo_t, fi_t, it_t = parse(FS), parse(FOLDER), parse(FILE), parse(ITEM)
    fs_c, fo_c, fi_c, it_c = class_def(fs_t, "FileSystem"), class_def(fo_t, "Folder"), class_def(fi_t, "File"), class_def(it_t, "FileSystemItemABC")
    L = ["namespace Primaite.Gen.FileSystem", ""]

    # item verbs
    verbs = []
    for mgr, name, func, val in _add_requests(find_method(it_c, "_init_request_manager")):
        m = re.fullmatch(r"lambda request, context: RequestResponse\.from_bool\(self\.(\w+)\(\)\)", func)
        if mgr != "rm" or val or not m:
            raise ValueError(f"FileSystemItemABC request {name}: unrecognised shape {func}")
        verbs.append((name, m.group(1)))
    L.append("/-- request name → method, as registered by `FileSystemItemABC._init_request_manager` -/")
    L.append("def itemVerbs : List (String × String) := [" + ", ".join(f"({lean_str(a)}, {lean_str(b)})" for a, b in verbs) + "]")

    # request trees: (manager, name, func, validator)
    def tree(cls, nm):
        rows = _add_requests(find_method(cls, "_init_request_manager"))
        L.append(f"/-- `{cls.name}._init_request_manager`: (manager, request name, func, validator) in source order -/")
        L.append(f"def {nm} : List (String × String × String × String) := [")
        L.append(",\n".join(f"  ({lean_str(a)}, {lean_str(b)}, {lean_str(c)}, {lean_str(d)})" for a, b, c, d in rows))
        L.append("]")
    tree(fs_c, "fsTree")
    tree(fo_c, "folderTree")
    # local handler functions of FileSystem._init_request_manager
    irm = find_method(fs_c, "_init_request_manager")
    L.append("/-- the local handler functions of `FileSystem._init_request_manager`, cleaned -/")
    L.append("def fsHandlers : List (String × String) := [")
    from harness.extract.fsxlate import HANDLERS as _XH, VALIDATORS as _XV
    xh = {h[0] for h in _XH}                          # translated (fsxlate, C15_gen_handlers): no textual pin
    from harness.extract import fsxlate as _fx2
    try:
        look, consumed = _fx2.file_action_shape(irm)
        if look != "fsGetFile s r0 r1 false" or consumed != 2:
            raise _fx2.Unsupported("_file_action reads other options than request[0], request[1] / hands on other than request[2:]")
        xh.add(_fx2.FILE_ACTION)                       # lookup translated, dispatch read structurally (C15_gen_file_action)
        file_action = _fx2.FILE_ACTION
    except _fx2.Unsupported:
        file_action = ""                               # stays in fsHandlers (text) and the request table reports the leaf as it is
    L.append(",\n".join(f"  ({lean_str(n.name)}, {lean_str(cleaned(n))})" for n in irm.body if isinstance(n, ast.FunctionDef) and n.name not in xh))
    L.append("]")

    # the full request table
    handlers = {n.name: cleaned(n) for n in irm.body if isinstance(n, ast.FunctionDef)}
    table = _request_table(_add_requests(irm), handlers, _add_requests(find_method(fo_c, "_init_request_manager")), verbs, file_action)
    L.append("/-- every request shape below `file_system` (sub-managers expanded; `<F>`, `<x>`, `<force>` = what a handler indexes) -/")
    L.append("def requestTable : List (List String) := [")
    L.append(",\n".join("  [" + ", ".join(lean_str(t) for t in row) + "]" for row in table))
    L.append("]")

    # validators
    L.append("/-- `__call__` bodies of the validators -/")
    L.append("def validators : List (String × String) := [")
    rows = [(f"FileSystem.{v}", _validator_expr(fs_c, v)) for v in ("_FolderExistsValidator", "_FolderNotDeletedValidator", "_FileExistsValidator")]
    rows += [(f"Folder.{v}", _validator_expr(fo_c, v)) for v in ("_FileExistsValidator", "_FileNotDeletedValidator")]
    xv = {f"{v[1]}.{v[2]}" for v in _XV}              # translated (fsxlate, C15_gen_validators): no textual pin
    rows = [r for r in rows if r[0] not in xv]
    L.append(",\n".join(f"  ({lean_str(a)}, {lean_str(b)})" for a, b in rows))
    L.append("]")
    # how the validator attributes are bound
    binds = []
    for cls in (fs_c, fo_c):
        for st in find_method(cls, "_init_request_manager").body:
            if isinstance(st, ast.Assign) and isinstance(st.value, ast.Call) and "Validator" in ast.unparse(st.value.func):
                binds.append((ast.unparse(st.targets[0]), ast.unparse(st.value.func)))
    L.append("def validatorBindings : List (String × String) := [" + ", ".join(f"({lean_str(a)}, {lean_str(b)})" for a, b in binds) + "]")

    # guards: methods that refuse a deleted item with False and otherwise return True
    rows = []
    for (cn, rel), methods in GUARDED.items():
        c = class_def(parse(rel), cn)
        for m in methods:
            fn = find_method(c, m)
            rows.append((f"{cn}.{m}", _refuses_deleted(fn), _returns_true_otherwise(fn) and m != "check_hash"))
    L.append("/-- (method, refuses a deleted item / is unimplemented and returns False first, returns True otherwise) -/")
    L.append("def guards : List (String × Bool × Bool) := [" + ", ".join(
        f"({lean_str(a)}, {'true' if b else 'false'}, {'true' if c else 'false'})" for a, b, c in rows) + "]")

    # constants
    L.append(f"def folderRestoreDuration : Int := {int(_field_default(fo_c, 'restore_duration'))}")
    L.append(f"def folderRestoreCountdown : Int := {int(_field_default(fo_c, 'restore_countdown'))}")
    L.append(f"def itemDeletedDefault : Bool := {'true' if _field_default(it_c, 'deleted') else 'false'}")
    L.append(f"def defaultFolderRestoreDuration : String := {lean_str(str(_field_default(fs_c, '_default_folder_restore_duration')))}")
    L.append(f"def numFileCreationsDefault : Nat := {int(_field_default(fs_c, 'num_file_creations'))}")
    L.append(f"def numFileDeletionsDefault : Nat := {int(_field_default(fs_c, 'num_file_deletions'))}")

    # transcribed method bodies
    L.append("/-- the methods the model transcribes, with docstrings and logging removed -/")
    L.append("def methods : List (String × String) := [")
    rows = []
    for (cn, rel), ms in TRANSCRIBED.items():
        c = class_def(parse(rel), cn)
        for m in ms:
            rows.append((f"{cn}.{m}", cleaned(find_method(c, m))))
    L.append(",\n".join(f"  ({lean_str(a)}, {lean_str(b)})" for a, b in rows))
    L.append("]")

    # method inventory: every method (and property) of the four classes, in source order; and the ones some tie reads
    inv = []
    for c in (fs_c, fo_c, fi_c, it_c):
        inv += [f"{c.name}.{n.name}" for n in c.body if isinstance(n, (ast.FunctionDef, ast.AsyncFunctionDef))]
    # private helpers of Folder that the statement translator expands IN PLACE at every one of their call sites (extract/fsxlate.py,
    # `self._helper(X)`): their bodies are read as part of the translated callers, so they are not separate entries of the inventory
    from harness.extract import fsxlate as _fx
    helpers = _fx.inlined_helpers()
    for h, n_inlined in sorted(helpers.items()):
        n_calls = sum(1 for c in (fs_c, fo_c, fi_c, it_c) for n in ast.walk(c)
                      if isinstance(n, ast.Attribute) and n.attr == h)
        if n_calls != n_inlined:
            raise ValueError(f"helper Folder.{h} is referenced {n_calls} time(s) in the four classes but translated in place {n_inlined} time(s)")
    inv = [m for m in inv if not (m.startswith("Folder.") and m[len("Folder."):] in helpers)]
    L.append("/-- private Folder helpers expanded in place by the statement translator (all their call sites are inside translated methods) -/")
    L.append("def inlinedHelpers : List String := [" + ", ".join(lean_str("Folder." + h) for h in sorted(helpers)) + "]")
    L.append("/-- every method and property of FileSystem, Folder, File, FileSystemItemABC, in source order -/")
    L.append("def methodInventory : List String := [" + ", ".join(lean_str(m) for m in inv) + "]")
    tied = [f"{cn}.{m}" for (cn, rel), ms in TRANSCRIBED.items() for m in ms]          # textual snapshot
    from harness.extract.fsxlate import TRANSLATED
    tied += TRANSLATED                                                                   # translated (extract/fsxlate.py)
    tied += ["FileSystem._init_request_manager", "Folder._init_request_manager", "FileSystemItemABC._init_request_manager"]
    L.append("/-- the methods some obligation reads: textual snapshot, statement translation, guard table, request trees -/")
    L.append("def tiedMethods : List String := [" + ", ".join(lean_str(m) for m in tied) + "]")

    # the health enum
    he = class_def(it_t, "FileSystemItemHealthStatus")
    members = [(st.targets[0].id, st.value.value) for st in he.body if isinstance(st, ast.Assign) and isinstance(st.value, ast.Constant)]
    L.append("def healthMembers : List (String × Nat) := [" + ", ".join(f"({lean_str(a)}, {b})" for a, b in members) + "]")
    L.append(f"def healthDefault : String := {lean_str(str(_field_default(it_c, 'health_status')))}")
    L.append(f"def visibleHealthDefault : String := {lean_str(str(_field_default(it_c, 'visible_health_status')))}")

    # where health is looked at
    hb, hr, hs = _health_table((fs_c, fo_c, fi_c, it_c))
    L.append("/-- every `if` of the four classes whose test mentions health_status: (method, test, controlled statements) -/")
    L.append("def healthBranches : List (String × String × String) := [")
    L.append(",\n".join(f"  ({lean_str(a)}, {lean_str(b)}, {lean_str(c)})" for a, b, c in hb))
    L.append("]")
    L.append("/-- every other statement that reads health_status -/")
    L.append("def healthReads : List (String × String) := [")
    L.append(",\n".join(f"  ({lean_str(a)}, {lean_str(b)})" for a, b in hr))
    L.append("]")
    L.append("/-- health-dependent branches that control anything but health assignments (must be empty) -/")
    L.append("def healthControlsStructure : List String := [" + ", ".join(lean_str(x) for x in hs) + "]")

    # action templates
    acts = _actions(ACT_FILE) + _actions(ACT_FOLDER)
    L.append("/-- `form_request` of every file/folder action, as a function of the configuration fields it reads -/")
    for disc, params, elems in acts:
        L.append(f"def {_camel(disc)} ({' '.join(params)} : String) : List String := [{', '.join(elems)}]")
    L.append("def actionNames : List String := [" + ", ".join(lean_str(d) for d, _, _ in acts) + "]")
    L.append("")
    L.append("end Primaite.Gen.FileSystem")
    return "\n".join(L) + "\n"
