"""Mini-translator Python -> Lean for small pure functions (E3): locals, if/elif/else, return, comparisons,
and/or/not, + - * //, min/max, int(), conditional expressions, `is None` / `is not None`, Python truthiness by
declared type.  Anything else raises Unsupported (the extractor then fails loudly)."""
import ast
from typing import Dict, Tuple


class Unsupported(Exception):
    pass


CMP = {ast.Gt: ">", ast.GtE: "≥", ast.Lt: "<", ast.LtE: "≤", ast.Eq: "=", ast.NotEq: "≠"}
ARITH = {ast.Add: "+", ast.Sub: "-", ast.Mult: "*", ast.FloorDiv: "/"}

Env = Dict[str, Tuple[str, str]]  # python name/attr -> (lean expr, type in {nat,int,bool,optnat,opt})


def truthy(e: ast.AST, env: Env) -> str:
    """Lean Bool for Python's `bool(e)`."""
    if isinstance(e, ast.Compare) or isinstance(e, ast.BoolOp) or (isinstance(e, ast.UnaryOp) and isinstance(e.op, ast.Not)):
        return expr(e, env)[0]
    s, ty = expr(e, env)
    if ty == "bool":
        return s
    if ty in ("nat", "int"):
        return f"(decide ({s} ≠ 0))"
    if ty == "optnat":  # Optional[int]: None and 0 are falsy
        return f"(match {s} with | some n => decide (n ≠ 0) | none => false)"
    if ty.startswith("opt"):     # Optional[object] whose instances are always truthy
        return f"({s}).isSome"
    raise Unsupported(f"truthiness of type {ty}")


def expr(e: ast.AST, env: Env) -> Tuple[str, str]:
    if isinstance(e, ast.Constant):
        if isinstance(e.value, bool):
            return ("true" if e.value else "false"), "bool"
        if isinstance(e.value, int):
            return str(e.value), "nat"
        if e.value is None:
            return "none", "opt"
        raise Unsupported(ast.dump(e))
    if isinstance(e, (ast.Name, ast.Attribute)):
        s = ast.unparse(e)
        if s in env:
            return env[s]
        raise Unsupported("free name " + s)
    if isinstance(e, ast.Compare) and len(e.ops) == 1:
        op = e.ops[0]
        l, lt = expr(e.left, env)
        if isinstance(op, (ast.Is, ast.IsNot)) and isinstance(e.comparators[0], ast.Constant) and e.comparators[0].value is None:
            return (f"({l}).isNone" if isinstance(op, ast.Is) else f"({l}).isSome"), "bool"
        if type(op) in CMP:
            r, rt = expr(e.comparators[0], env)
            if isinstance(op, (ast.Eq, ast.NotEq)) and lt != rt:
                # Python compares an Optional with a plain value: None never equals a value
                if lt.startswith("opt") and not rt.startswith("opt"):
                    r = f"(some {r})"
                elif rt.startswith("opt") and not lt.startswith("opt"):
                    l = f"(some {l})"
            return f"(decide ({l} {CMP[type(op)]} {r}))", "bool"
    if isinstance(e, ast.Compare) and len(e.ops) == 2 and all(type(o) in CMP for o in e.ops):
        a, _ = expr(e.left, env)
        b, _ = expr(e.comparators[0], env)
        c, _ = expr(e.comparators[1], env)
        return f"(decide ({a} {CMP[type(e.ops[0])]} {b}) && decide ({b} {CMP[type(e.ops[1])]} {c}))", "bool"
    if isinstance(e, ast.BinOp) and type(e.op) in ARITH:
        l, lt = expr(e.left, env)
        r, rt = expr(e.right, env)
        return f"({l} {ARITH[type(e.op)]} {r})", ("int" if "int" in (lt, rt) else "nat")
    if isinstance(e, ast.BoolOp):
        op = " && " if isinstance(e.op, ast.And) else " || "
        return "(" + op.join(truthy(v, env) for v in e.values) + ")", "bool"
    if isinstance(e, ast.UnaryOp) and isinstance(e.op, ast.Not):
        return f"(!{truthy(e.operand, env)})", "bool"
    if isinstance(e, ast.IfExp):
        a, at = expr(e.body, env)
        b, bt = expr(e.orelse, env)
        return f"(if {truthy(e.test, env)} then {a} else {b})", at
    if isinstance(e, ast.Call) and isinstance(e.func, ast.Name) and e.func.id in ("min", "max") and len(e.args) == 2:
        a, at = expr(e.args[0], env)
        b, _ = expr(e.args[1], env)
        return f"({e.func.id} {a} {b})", at
    if isinstance(e, ast.Call) and isinstance(e.func, ast.Name) and e.func.id == "int" and len(e.args) == 1:
        return expr(e.args[0], env)
    if isinstance(e, ast.Call) and isinstance(e.func, ast.Name) and ("call:" + e.func.id) in env:
        lean_fn, kwnames = env["call:" + e.func.id]
        kws = {k.arg: k.value for k in e.keywords}
        order = kwnames.split(",")
        args = [expr(kws[k], env) if k in kws else expr(e.args[i], env) for i, k in enumerate(order)]
        # an Optional argument is only passed under a guard that it is present: unwrap with the declared default
        rendered = [(f"(({a}).getD 0)" if t.startswith("opt") else a) for a, t in args]
        return f"({lean_fn} " + " ".join(rendered) + ")", "bool"
    if isinstance(e, ast.BinOp) and isinstance(e.op, ast.BitAnd):
        l, _ = expr(e.left, env)
        r, _ = expr(e.right, env)
        return f"({l} &&& {r})", "bv"
    if isinstance(e, ast.UnaryOp) and isinstance(e.op, ast.Invert):
        o, _ = expr(e.operand, env)
        return f"(~~~{o})", "bv"
    raise Unsupported(ast.dump(e)[:120])


def _is_doc(s: ast.stmt) -> bool:
    return isinstance(s, ast.Expr) and isinstance(s.value, ast.Constant) and isinstance(s.value.value, str)


def stmts(body, env: Env, ind: int) -> str:
    body = [s for s in body if not _is_doc(s)]
    if not body:
        raise Unsupported("fall-through without return")
    s, rest = body[0], body[1:]
    pad = "  " * ind
    if isinstance(s, ast.Return):
        return pad + expr(s.value, env)[0]
    if isinstance(s, ast.Assign) and len(s.targets) == 1 and isinstance(s.targets[0], ast.Name):
        v = s.targets[0].id
        val, ty = expr(s.value, env)
        k = sum(1 for n in env.values() if n[0].rstrip("'") == v) + 1
        lean = v + "'" * k
        env2 = dict(env)
        env2[v] = (lean, ty)
        return f"{pad}let {lean} := {val}\n" + stmts(rest, env2, ind)
    if isinstance(s, ast.If):
        def ends(b):
            return bool(b) and isinstance(b[-1], (ast.Return,)) or (bool(b) and isinstance(b[-1], ast.If) and ends(b[-1].body) and ends(b[-1].orelse))
        then_body = s.body if ends(s.body) else s.body + rest
        else_body = (s.orelse if ends(s.orelse) else list(s.orelse) + rest)
        return (f"{pad}if {truthy(s.test, env)} then\n{stmts(then_body, env, ind + 1)}\n{pad}else\n{stmts(else_body, env, ind + 1)}")
    raise Unsupported(ast.dump(s)[:120])


def _fresh(v: str, env: Env) -> str:
    k = 1
    used = {n[0] for n in env.values() if isinstance(n, tuple)}
    while v + "_" + str(k) in used:
        k += 1
    return v + "_" + str(k)


def block(body, env: Env, ind: int):
    """Translate a block WITHOUT return statements into `let` bindings; returns (text, env')."""
    text = ""
    pad = "  " * ind
    env = dict(env)
    for s in [b for b in body if not _is_doc(b)]:
        if isinstance(s, ast.Assign) and len(s.targets) == 1 and isinstance(s.targets[0], ast.Name):
            v = s.targets[0].id
            val, ty = expr(s.value, env)
            if ty == "opt" and val == "none" and v in env:
                ty = env[v][1]
            lean = _fresh(v, env)
            text += f"{pad}let {lean} := {val}\n"
            env[v] = (lean, ty)
        elif isinstance(s, ast.If):
            t_text, t_env = block(s.body, env, ind + 1)
            e_text, e_env = block(s.orelse, env, ind + 1)
            changed = sorted(v for v in set(t_env) | set(e_env) if t_env.get(v) != env.get(v) or e_env.get(v) != env.get(v))
            for v in changed:
                if v not in t_env or v not in e_env:
                    raise Unsupported(f"variable {v} assigned in one branch only and undefined before")
            if not changed:
                continue
            news = {v: _fresh(v, {**env, **{("tmp" + str(i)): (n, "") for i, n in enumerate([])}}) for v in changed}
            # make the fresh names distinct from names introduced inside the branches as well
            taken = {n[0] for n in list(t_env.values()) + list(e_env.values()) + list(env.values()) if isinstance(n, tuple)}
            for v in changed:
                k = 1
                while f"{v}_{k}" in taken:
                    k += 1
                news[v] = f"{v}_{k}"
                taken.add(news[v])
            tup = (lambda xs: xs[0] if len(xs) == 1 else "(" + ", ".join(xs) + ")")
            pat = tup([news[v] for v in changed])
            tv = tup([t_env[v][0] for v in changed])
            ev = tup([e_env[v][0] for v in changed])
            text += (f"{pad}let {pat} := (if {truthy(s.test, env)} then\n{t_text}{pad}  {tv}\n{pad}else\n{e_text}{pad}  {ev})\n")
            for v in changed:
                ty = t_env[v][1] if t_env[v][1] != "opt" else e_env[v][1]
                env[v] = (news[v], ty)
        else:
            raise Unsupported("statement in block: " + ast.dump(s)[:100])
    return text, env


def translate_imperative(fn: ast.FunctionDef, lean_name: str, params: str, env: Env, ret: str) -> str:
    """Function whose body is assignments / ifs followed by ONE final `return expr` (possibly a tuple)."""
    body = [b for b in fn.body if not _is_doc(b)]
    if not isinstance(body[-1], ast.Return):
        raise Unsupported("last statement is not a return")
    text, env2 = block(body[:-1], dict(env), 1)
    rv = body[-1].value
    if isinstance(rv, ast.Tuple):
        out = "(" + ", ".join(expr(x, env2)[0] for x in rv.elts) + ")"
    else:
        out = expr(rv, env2)[0]
    return f"def {lean_name} {params} : {ret} :=\n{text}  {out}"


def translate_function(fn: ast.FunctionDef, lean_name: str, params: str, env: Env, ret: str) -> str:
    return f"def {lean_name} {params} : {ret} :=\n" + stmts(fn.body, dict(env), 1)
