"""Translator for C10: the body of every reward component's `calculate(self, state, last_action_response)`
(src/primaite/game/agent/rewards.py) -> a term of the small imperative language of
lean/PrimaiteModel/Model/RewardCalcLang.lean (`Py.Stmt` / `Py.Expr`), statement by statement.

Pure `ast`; strict: any construct outside the fragment raises `Unsupported` (the extractor then fails loudly and the tie is
reported broken).  Nothing here knows what a component is supposed to compute — the meaning of the emitted term is given by
the Lean interpreter, and Props/C10.lean proves it equal to the hand-written component model for all inputs.

Fragment: assignments to a local / `self.reward` / `self.location_in_state` / `last_action_response.reward_info`;
`if / elif / else`; `return`; `pass`; docstrings and `_LOGGER.*(...)` calls (dropped: no effect on the result); a nested
`def f(x): return v1 if x == k1 else v2 if x == k2 else d` (a table function, only usable as `sum(map(f, e)) / len(e)`).
Expressions: constants, locals, `state`, `NOT_PRESENT_IN_STATE`, `self.reward`, `self.location_in_state`, `self.config.<f>`,
`last_action_response.action | .request | .response.status`, list displays, one-entry dict displays, `== != is is not`,
`not / and / or`, `a if c else b`, `e['k']`, `e[-1]`, `e.get('k')`, `access_from_nested_dict(a, b)`, `self.callback(e)`.
For module-level functions (`translate_function`): parameters as locals, `[*e]`, `len(e)`, `in` / `not in`, `x = l.pop(0)`, `e[k]`
with a local `k`, and a call of the function itself."""
import ast
from fractions import Fraction
from typing import Dict, List, Tuple


class Unsupported(Exception):
    pass


def lstr(s: str) -> str:
    return '"' + s.replace("\\", "\\\\").replace('"', '\\"') + '"'


def lrat(x: float) -> str:
    f = Fraction(x)  # the exact value of the double
    n = str(f.numerator) if f.numerator >= 0 else f"({f.numerator})"
    return f"({n} : Rat)" if f.denominator == 1 else f"(({n} : Rat) / {f.denominator})"


def lint(i: int) -> str:
    return str(i) if i >= 0 else f"({i})"


def const(v) -> str:
    if v is None:
        return "(.const .none)"
    if isinstance(v, bool):
        return f"(.const (.bool {'true' if v else 'false'}))"
    if isinstance(v, int):
        return f"(.const (.int {lint(v)}))"
    if isinstance(v, float):
        return f"(.const (.num {lrat(v)}))"
    if isinstance(v, str):
        return f"(.const (.str {lstr(v)}))"
    raise Unsupported(f"constant {v!r}")


class Calc:
    """One `calculate` body."""

    def __init__(self, fn: ast.FunctionDef, params: List[str] = None, rec_name: str = None):
        """`params is None`: a component's `calculate(self, state, last_action_response)`. Otherwise a module-level function with
        exactly these parameters (bound as locals), which may call itself (`rec_name`) with two positional arguments."""
        args = [a.arg for a in fn.args.args]
        want = ["self", "state", "last_action_response"] if params is None else list(params)
        if args != want or fn.args.vararg or fn.args.kwarg or fn.args.kwonlyargs:
            raise Unsupported(f"{fn.name} signature {args}")
        self.fn = fn
        self.tables: Dict[str, Tuple[List[Tuple[int, float]], float]] = {}
        self.bound: set = set(params or [])
        self.method = params is None
        self.rec_name = rec_name
        self.self_attrs: set = set()  # further attributes of `self` the function may read / assign (`translate_method`)

    # ------------------------------------------------------------------ expressions
    def expr(self, e: ast.AST) -> str:
        if isinstance(e, ast.Constant):
            return const(e.value)
        if isinstance(e, ast.UnaryOp) and isinstance(e.op, ast.USub) and isinstance(e.operand, ast.Constant) \
                and isinstance(e.operand.value, (int, float)) and not isinstance(e.operand.value, bool):
            return const(-e.operand.value)
        if isinstance(e, ast.UnaryOp) and isinstance(e.op, ast.Not):
            return f"(.not {self.expr(e.operand)})"
        if isinstance(e, ast.Name):
            if e.id == "state" and self.method:
                return ".state"
            if e.id == "NOT_PRESENT_IN_STATE":
                return ".notPresent"
            if e.id in self.bound:
                return f"(.var {lstr(e.id)})"
            raise Unsupported(f"free name {e.id}")
        if isinstance(e, ast.Attribute):
            s = ast.unparse(e)
            if s == "self.reward":
                return ".selfReward"
            if s == "self.location_in_state":
                return ".selfLoc"
            if s.startswith("self.config.") and s.count(".") == 2:
                return f"(.cfg {lstr(e.attr)})"
            if s.startswith("self.") and s.count(".") == 1 and e.attr in self.self_attrs:
                return f"(.selfAttr {lstr(e.attr)})"
            if s == "last_action_response.action":
                return ".itemAction"
            if s == "last_action_response.request":
                return ".itemRequest"
            if s == "last_action_response.response.status":
                return ".itemStatus"
            raise Unsupported(f"attribute {s}")
        if isinstance(e, ast.List) and len(e.elts) == 1 and isinstance(e.elts[0], ast.Starred):
            return f"(.copyList {self.expr(e.elts[0].value)})"
        if isinstance(e, ast.List):
            out = ".nil"
            for x in reversed(e.elts):
                out = f"(.cons {self.expr(x)} {out})"
            return out
        if isinstance(e, ast.Dict):
            if len(e.keys) == 1 and isinstance(e.keys[0], ast.Constant) and isinstance(e.keys[0].value, str):
                return f"(.dict1 {lstr(e.keys[0].value)} {self.expr(e.values[0])})"
            raise Unsupported(f"dict display {ast.unparse(e)}")
        if isinstance(e, ast.Compare) and len(e.ops) == 1:
            a, b = self.expr(e.left), self.expr(e.comparators[0])
            op = e.ops[0]
            if isinstance(op, ast.Eq):
                return f"(.eq {a} {b})"
            if isinstance(op, ast.NotEq):
                return f"(.ne {a} {b})"
            if isinstance(op, ast.Is):
                return f"(.is_ {a} {b})"
            if isinstance(op, ast.IsNot):
                return f"(.not (.is_ {a} {b}))"
            if isinstance(op, ast.NotIn):
                return f"(.notIn {a} {b})"
            if isinstance(op, ast.In):
                return f"(.not (.notIn {a} {b}))"
            raise Unsupported(f"comparison {ast.unparse(e)}")
        if isinstance(e, ast.BoolOp):
            k = ".or" if isinstance(e.op, ast.Or) else ".and"
            out = self.expr(e.values[-1])
            for x in reversed(e.values[:-1]):
                out = f"({k} {self.expr(x)} {out})"
            return out
        if isinstance(e, ast.IfExp):
            return f"(.ifExp {self.expr(e.test)} {self.expr(e.body)} {self.expr(e.orelse)})"
        if isinstance(e, ast.Subscript):
            sl = e.slice
            if isinstance(sl, ast.Constant) and isinstance(sl.value, str):
                return f"(.getItem {self.expr(e.value)} {lstr(sl.value)})"
            if isinstance(sl, ast.UnaryOp) and isinstance(sl.op, ast.USub) and isinstance(sl.operand, ast.Constant) \
                    and sl.operand.value == 1:
                return f"(.last {self.expr(e.value)})"
            if isinstance(sl, ast.Name) and sl.id in self.bound:
                return f"(.index {self.expr(e.value)} {self.expr(sl)})"
            if isinstance(sl, ast.Constant) and isinstance(sl.value, int) and not isinstance(sl.value, bool) and sl.value >= 0:
                return f"(.index {self.expr(e.value)} {const(sl.value)})"
            raise Unsupported(f"subscript {ast.unparse(e)}")
        if isinstance(e, ast.BinOp) and isinstance(e.op, (ast.Add, ast.Mult)):
            return f"({'.add' if isinstance(e.op, ast.Add) else '.mul'} {self.expr(e.left)} {self.expr(e.right)})"
        if isinstance(e, ast.Call) and isinstance(e.func, ast.Attribute) and e.func.attr == "calculate" and not e.args \
                and sorted(k.arg for k in e.keywords) == ["last_action_response", "state"] \
                and all(isinstance(k.value, ast.Name) and k.value.id == k.arg for k in e.keywords) and self.method:
            return f"(.calcOf {self.expr(e.func.value)})"  # the component is handed this very state and item
        if isinstance(e, ast.BinOp) and isinstance(e.op, ast.Div):
            # sum(map(f, xs)) / len(xs)
            l, r = e.left, e.right
            if (isinstance(l, ast.Call) and ast.unparse(l.func) == "sum" and len(l.args) == 1 and not l.keywords
                    and isinstance(l.args[0], ast.Call) and ast.unparse(l.args[0].func) == "map" and len(l.args[0].args) == 2
                    and isinstance(l.args[0].args[0], ast.Name) and l.args[0].args[0].id in self.tables
                    and isinstance(r, ast.Call) and ast.unparse(r.func) == "len" and len(r.args) == 1
                    and ast.dump(r.args[0]) == ast.dump(l.args[0].args[1])):
                tbl, dflt = self.tables[l.args[0].args[0].id]
                t = "[" + ", ".join(f"({lint(k)}, {lrat(v)})" for k, v in tbl) + "]"
                return f"(.avgTable {t} {lrat(dflt)} {self.expr(r.args[0])})"
            raise Unsupported(f"division {ast.unparse(e)}")
        if isinstance(e, ast.Call) and not e.keywords:
            f = ast.unparse(e.func)
            if self.rec_name is not None and f == self.rec_name and len(e.args) == 2:
                return f"(.recCall {self.expr(e.args[0])} {self.expr(e.args[1])})"
            if f == "access_from_nested_dict" and len(e.args) == 2:
                return f"(.access {self.expr(e.args[0])} {self.expr(e.args[1])})"
            if f == "len" and len(e.args) == 1:
                return f"(.len {self.expr(e.args[0])})"
            if f == "self.callback" and len(e.args) == 1:
                return f"(.callback {self.expr(e.args[0])})"
            if isinstance(e.func, ast.Attribute) and e.func.attr == "get" and len(e.args) == 1 \
                    and isinstance(e.args[0], ast.Constant) and isinstance(e.args[0].value, str):
                return f"(.get {self.expr(e.func.value)} {lstr(e.args[0].value)})"
        raise Unsupported(f"expression {ast.unparse(e)}")

    # ------------------------------------------------------------------ statements
    def table_function(self, fn: ast.FunctionDef):
        body = [s for s in fn.body if not (isinstance(s, ast.Expr) and isinstance(s.value, ast.Constant))]
        if len(fn.args.args) != 1 or len(body) != 1 or not isinstance(body[0], ast.Return):
            raise Unsupported(f"nested function {fn.name}")
        x = fn.args.args[0].arg
        e = body[0].value
        tbl: List[Tuple[int, float]] = []

        def num(v: ast.AST) -> float:
            if isinstance(v, ast.UnaryOp) and isinstance(v.op, ast.USub):
                return -num(v.operand)
            if isinstance(v, ast.Constant) and isinstance(v.value, (int, float)) and not isinstance(v.value, bool):
                return float(v.value)
            raise Unsupported(f"table value {ast.unparse(v)}")
        while isinstance(e, ast.IfExp):
            t = e.test
            if not (isinstance(t, ast.Compare) and len(t.ops) == 1 and isinstance(t.ops[0], ast.Eq) and isinstance(t.left, ast.Name)
                    and t.left.id == x and isinstance(t.comparators[0], ast.Constant)
                    and isinstance(t.comparators[0].value, int) and not isinstance(t.comparators[0].value, bool)):
                raise Unsupported(f"table test {ast.unparse(t)}")
            tbl.append((t.comparators[0].value, num(e.body)))
            e = e.orelse
        self.tables[fn.name] = (tbl, num(e))

    def target(self, t: ast.AST) -> str:
        s = ast.unparse(t)
        if s == "self.reward":
            return ".selfReward"
        if s == "self.location_in_state":
            return ".selfLoc"
        if s == "last_action_response.reward_info":
            return ".itemRewardInfo"
        if isinstance(t, ast.Attribute) and s.startswith("self.") and s.count(".") == 1 and t.attr in self.self_attrs:
            return f"(.selfAttr {lstr(t.attr)})"
        if isinstance(t, ast.Name) and t.id not in ("state", "self", "last_action_response", "NOT_PRESENT_IN_STATE"):
            return f"(.var {lstr(t.id)})"
        raise Unsupported(f"assignment target {s}")

    def stmt(self, s: ast.stmt) -> str:
        if isinstance(s, ast.Expr):
            if isinstance(s.value, ast.Constant) and isinstance(s.value.value, str):
                return ".pass"  # docstring
            if isinstance(s.value, ast.Call) and ast.unparse(s.value.func).startswith("_LOGGER."):
                return ".pass"
            raise Unsupported(f"expression statement {ast.unparse(s)}")
        if isinstance(s, ast.Pass):
            return ".pass"
        if isinstance(s, ast.FunctionDef):
            self.table_function(s)
            return ".pass"
        if isinstance(s, ast.Assign) and len(s.targets) == 1 and isinstance(s.targets[0], ast.Name) \
                and isinstance(s.value, ast.Call) and isinstance(s.value.func, ast.Attribute) and s.value.func.attr == "pop" \
                and isinstance(s.value.func.value, ast.Name) and s.value.func.value.id in self.bound and not s.value.keywords \
                and len(s.value.args) == 1 and isinstance(s.value.args[0], ast.Constant) and s.value.args[0].value == 0:
            self.bound.add(s.targets[0].id)
            return f"(.popFront {lstr(s.targets[0].id)} {lstr(s.value.func.value.id)})"
        if isinstance(s, ast.Assign) and len(s.targets) == 1:
            e = self.expr(s.value)
            t = self.target(s.targets[0])
            if isinstance(s.targets[0], ast.Name):
                self.bound.add(s.targets[0].id)
            return f"(.assign {t} {e})"
        if isinstance(s, ast.If):
            c = self.expr(s.test)
            before = set(self.bound)
            a = self.block(s.body)
            after_a = set(self.bound)
            self.bound = set(before)
            b = self.block(s.orelse)
            self.bound = after_a & self.bound  # bound after the `if` only if bound on both branches
            return f"(.ite {c} {a} {b})"
        if isinstance(s, ast.AugAssign) and isinstance(s.op, ast.Add) and isinstance(s.target, ast.Name) and s.target.id in self.bound:
            return f"(.assign (.var {lstr(s.target.id)}) (.add (.var {lstr(s.target.id)}) {self.expr(s.value)}))"
        if isinstance(s, ast.For) and isinstance(s.target, ast.Name) and not s.orelse:
            it = self.expr(s.iter)
            before = set(self.bound)
            self.bound.add(s.target.id)
            body = self.block(s.body)
            self.bound = before | {s.target.id}  # names first bound inside the loop body are not relied upon afterwards
            return f"(.forIn {lstr(s.target.id)} {it}\n    {body})"
        if isinstance(s, ast.Return):
            return f"(.ret {self.expr(s.value) if s.value is not None else '(.const .none)'})"
        raise Unsupported(f"statement {ast.unparse(s)[:80]}")

    def block(self, body: List[ast.stmt]) -> str:
        parts = [p for p in (self.stmt(s) for s in body) if p != ".pass"]
        if not parts:
            return ".pass"
        out = parts[-1]
        for p in reversed(parts[:-1]):
            out = f"(.seq {p}\n    {out})"
        return out

    def translate(self) -> str:
        return self.block(self.fn.body)


def translate_calculate(fn: ast.FunctionDef) -> str:
    return Calc(fn).translate()


def translate_method(fn: ast.FunctionDef, self_attrs: List[str]) -> str:
    """A method `m(self, state, last_action_response)` that is not a component's `calculate`: additionally `for x in e:`, `x += e`,
    `a + b`, `a * b`, `e[<int>]`, `obj.calculate(state=state, last_action_response=last_action_response)`, and reading / assigning the
    listed attributes of `self` — `RewardFunction.update`."""
    c = Calc(fn)
    c.self_attrs = set(self_attrs)
    return c.translate()


def translate_function(fn: ast.FunctionDef, params: List[str]) -> str:
    """A module-level function of the same fragment (plus `[*e]`, `len`, `in` / `not in`, `x = l.pop(0)`, `e[k]` with a local key and
    self-recursion), its parameters bound as locals: `access_from_nested_dict(dictionary, keys)`."""
    return Calc(fn, params=params, rec_name=fn.name).translate()
