"""Translator for C10: `topological_sort(graph)` and `graph_has_cycle(graph)` (src/primaite/game/science.py) -> terms of the small
imperative language of lean/PrimaiteModel/Model/RewardGraphLang.lean (`Lang.Fn`: containers, ONE nested recursive function over a
node, loops over the graph), statement by statement.

Pure `ast`; strict: any construct outside the fragment raises `Unsupported` (the tie is then reported broken and the differential
families search for a failing graph).  Nothing here knows what the functions are supposed to compute — the meaning of the emitted
term is given by the Lean interpreter, and Props/C10Graph.lean proves it equal to `topoSortF` / `hasCycleF` for every graph.

Fragment.  Outer function `def f(graph)`: `x = set()` / `x = []` / `x = list()` (annotated or not), ONE nested `def g(node)` (before
any call of it), `for v in graph:` / `for v in graph.keys():`, `if`, `g(v)`, `return x` (a list container) / `return True|False|None`.
Nested function: `if` / `elif` / `else` with conditions `v in c`, `v not in c`, `g(v)`, `not …`; `c.add(v)`, `c.remove(v)`,
`c.append(v)`, `g(v)`, `for w in graph.get(v, [])` (default `[]`, `()`, `set()`, `list()`, `tuple()`), `return …`, `pass`.
Docstrings are dropped.  Names are made canonical (containers `c0, c1, …` in order of creation, the nested function's parameter
`p`, loop variables `v<nesting depth>`), so renaming a local is not a change.  Python leaks a loop variable out of its loop and lets
it shadow another name; the Lean language scopes it lexically, so a loop variable that shadows a bound name, or any name read
outside its loop, is refused (on every accepted program the two semantics agree)."""
import ast
from typing import Dict, List, Optional

from harness.extract.util import find_function, parse

GEN_NAME = "RewardGraph"


class Unsupported(Exception):
    pass


def lstr(s: str) -> str:
    return '"' + s + '"'


def _seq(stmts: List[str]) -> str:
    if not stmts:
        return ".pass"
    if len(stmts) == 1:
        return stmts[0]
    return f"(.seq {stmts[0]} {_seq(stmts[1:])})"


def _is_docstring(st: ast.stmt) -> bool:
    return isinstance(st, ast.Expr) and isinstance(st.value, ast.Constant) and isinstance(st.value.value, str)


class GraphFn:
    def __init__(self, fn: ast.FunctionDef):
        args = [a.arg for a in fn.args.args]
        if len(args) != 1 or fn.args.vararg or fn.args.kwarg or fn.args.kwonlyargs or fn.args.defaults:
            raise Unsupported(f"{fn.name}: signature {args}")
        self.fn = fn
        self.graph = args[0]
        self.conts: Dict[str, str] = {}      # python name -> canonical name
        self.kinds: Dict[str, str] = {}      # python name -> 'set' | 'list'
        self.inner_name: Optional[str] = None
        self.inner_param: Optional[str] = None
        self.inner_src: Optional[str] = None

    # ---------------------------------------------------------------- pieces
    def local(self, e: ast.AST, scope: Dict[str, str]) -> str:
        if isinstance(e, ast.Name) and e.id in scope:
            return lstr(scope[e.id])
        raise Unsupported(f"{self.fn.name}: `{ast.unparse(e)}` is not a node variable in scope")

    def cont(self, e: ast.AST, kind: Optional[str] = None) -> str:
        if isinstance(e, ast.Name) and e.id in self.conts:
            if kind is not None and self.kinds[e.id] != kind:
                raise Unsupported(f"{self.fn.name}: `{e.id}` is a {self.kinds[e.id]}, used as a {kind}")
            return lstr(self.conts[e.id])
        raise Unsupported(f"{self.fn.name}: `{ast.unparse(e)}` is not a container created by the function")

    def is_inner_call(self, e: ast.AST) -> bool:
        return isinstance(e, ast.Call) and isinstance(e.func, ast.Name) and e.func.id == self.inner_name \
            and len(e.args) == 1 and not e.keywords

    def cond(self, e: ast.AST, scope: Dict[str, str], neg: bool = False) -> str:
        if isinstance(e, ast.UnaryOp) and isinstance(e.op, ast.Not):
            return self.cond(e.operand, scope, not neg)
        if isinstance(e, ast.Compare) and len(e.ops) == 1 and isinstance(e.ops[0], (ast.In, ast.NotIn)):
            if isinstance(e.ops[0], ast.NotIn):
                neg = not neg
            return f"(.{'notIn' if neg else 'isIn'} {self.local(e.left, scope)} {self.cont(e.comparators[0])})"
        if self.is_inner_call(e):
            return f"(.{'notCall' if neg else 'call'} {self.local(e.args[0], scope)})"
        raise Unsupported(f"{self.fn.name}: condition `{ast.unparse(e)}`")

    def nbrs_of(self, e: ast.AST, scope: Dict[str, str]) -> Optional[str]:
        """`graph.get(v, <empty>)` -> the canonical name of v"""
        if isinstance(e, ast.Call) and isinstance(e.func, ast.Attribute) and e.func.attr == "get" \
                and isinstance(e.func.value, ast.Name) and e.func.value.id == self.graph and len(e.args) == 2 and not e.keywords:
            d = ast.unparse(e.args[1])
            if d not in ("[]", "()", "set()", "list()", "tuple()"):
                raise Unsupported(f"{self.fn.name}: default of `{ast.unparse(e)}` is not an empty collection")
            return self.local(e.args[0], scope)
        return None

    def is_keys(self, e: ast.AST) -> bool:
        return (isinstance(e, ast.Name) and e.id == self.graph) or ast.unparse(e) == f"{self.graph}.keys()"

    # ---------------------------------------------------------------- statements
    def block(self, body: List[ast.stmt], scope: Dict[str, str], depth: int, inner: bool) -> str:
        return _seq([self.stmt(st, scope, depth, inner) for st in body if not _is_docstring(st)])

    def stmt(self, st: ast.stmt, scope: Dict[str, str], depth: int, inner: bool) -> str:
        name = self.fn.name
        if isinstance(st, ast.Pass):
            return ".pass"
        if isinstance(st, ast.Return):
            v = st.value
            if v is None or (isinstance(v, ast.Constant) and v.value is None):
                return ".retNone"
            if isinstance(v, ast.Constant) and isinstance(v.value, bool):
                return f"(.retBool {'true' if v.value else 'false'})"
            if isinstance(v, ast.Name) and v.id in self.conts:
                return f"(.retCont {self.cont(v, 'list')})"
            raise Unsupported(f"{name}: `{ast.unparse(st)}`")
        if isinstance(st, ast.If):
            return f"(.ite {self.cond(st.test, scope)} {self.block(st.body, scope, depth, inner)} " \
                   f"{self.block(st.orelse, scope, depth, inner)})"
        if isinstance(st, ast.For):
            if st.orelse or not isinstance(st.target, ast.Name):
                raise Unsupported(f"{name}: `for {ast.unparse(st.target)} …` with else / a compound target")
            x = st.target.id
            if x in scope or x in self.conts or x in (self.graph, self.inner_name):
                raise Unsupported(f"{name}: loop variable `{x}` shadows another name")
            s2 = dict(scope)
            s2[x] = f"v{depth}"
            of = self.nbrs_of(st.iter, scope)
            if of is not None:
                return f"(.forNbrs {lstr(s2[x])} {of} {self.block(st.body, s2, depth + 1, inner)})"
            if self.is_keys(st.iter):
                return f"(.forKeys {lstr(s2[x])} {self.block(st.body, s2, depth + 1, inner)})"
            raise Unsupported(f"{name}: iteration over `{ast.unparse(st.iter)}`")
        if isinstance(st, (ast.Assign, ast.AnnAssign)):
            tgt = st.targets[0] if isinstance(st, ast.Assign) and len(st.targets) == 1 else getattr(st, "target", None)
            if inner or not isinstance(tgt, ast.Name) or st.value is None:
                raise Unsupported(f"{name}: assignment `{ast.unparse(st)}`" + (" inside the nested function" if inner else ""))
            src = ast.unparse(st.value)
            kind = {"set()": "set", "[]": "list", "list()": "list"}.get(src)
            if kind is None:
                raise Unsupported(f"{name}: `{ast.unparse(st)}` does not create an empty set / list")
            if tgt.id in scope or tgt.id in (self.graph, self.inner_name):
                raise Unsupported(f"{name}: `{tgt.id}` rebinds another name")
            if tgt.id not in self.conts:
                self.conts[tgt.id] = f"c{len(self.conts)}"
            elif self.kinds[tgt.id] != kind:
                raise Unsupported(f"{name}: `{tgt.id}` changes kind")
            self.kinds[tgt.id] = kind
            return f"(.{'newSet' if kind == 'set' else 'newList'} {lstr(self.conts[tgt.id])})"
        if isinstance(st, ast.Expr) and isinstance(st.value, ast.Call):
            c = st.value
            if self.is_inner_call(c):
                return f"(.callS {self.local(c.args[0], scope)})"
            if isinstance(c.func, ast.Attribute) and c.func.attr in ("add", "remove", "append") and len(c.args) == 1 and not c.keywords:
                kind = "list" if c.func.attr == "append" else "set"
                return f"(.{c.func.attr} {self.cont(c.func.value, kind)} {self.local(c.args[0], scope)})"
        if isinstance(st, ast.FunctionDef) and not inner:
            if self.inner_name is not None:
                raise Unsupported(f"{name}: more than one nested function")
            args = [a.arg for a in st.args.args]
            if len(args) != 1 or st.args.vararg or st.args.kwarg or st.args.kwonlyargs or st.args.defaults or st.decorator_list:
                raise Unsupported(f"{name}: nested `{st.name}` signature {args}")
            if args[0] in self.conts or args[0] == self.graph or st.name in self.conts or st.name == self.graph:
                raise Unsupported(f"{name}: nested `{st.name}({args[0]})` shadows another name")
            self.inner_name, self.inner_param = st.name, args[0]
            self._inner_def = st
            return None  # the definition itself has no effect; the body is translated once every container is known
        raise Unsupported(f"{name}: statement `{ast.unparse(st)[:80]}`")

    def translate(self) -> str:
        outer = []
        for st in self.fn.body:
            if _is_docstring(st):
                continue
            t = self.stmt(st, {}, 0, False)
            if t is not None:
                outer.append(t)
        if self.inner_name is None:
            raise Unsupported(f"{self.fn.name}: no nested function")
        # the nested function: a closure over the containers (all of them; one used before its creation raises `nameError` in Lean
        # as `NameError` would in Python), its own parameter, nothing else
        for n in ast.walk(self._inner_def):
            if isinstance(n, (ast.Nonlocal, ast.Global, ast.Lambda)) or (isinstance(n, ast.FunctionDef) and n is not self._inner_def):
                raise Unsupported(f"{self.fn.name}: `{type(n).__name__}` inside the nested function")
        inner = self.block(self._inner_def.body, {self.inner_param: "p"}, 0, True)
        return f'{{ param := "p",\n    inner := {inner},\n    outer := {_seq(outer)} }}'


def translate_graph_function(fn: ast.FunctionDef) -> str:
    return GraphFn(fn).translate()


def emit() -> str:
    sc = parse("game/science.py")
    defs = []
    for gname in ("topological_sort", "graph_has_cycle"):
        defs.append(f"/-- `{gname}(graph)` (game/science.py), translated from the source -/\n"
                    f"def fn_{gname} : Primaite.RewardGraph.Lang.Fn :=\n  " + translate_graph_function(find_function(sc, gname)))
    nl = "\n\n"
    return f"""import PrimaiteModel.Model.RewardGraphLang
namespace Primaite.Gen.RewardGraph

{nl.join(defs)}

end Primaite.Gen.RewardGraph
"""
