"""Shared machinery of every check: PRNG, lock, Lean build / audit, driver runner, findings, evidence, verdict.

Nothing here imports primaite.  Rigs (harness/rigs/*.py) do.
"""
from __future__ import annotations

import fcntl
import hashlib
import json
import os
import re
import subprocess
import sys
import time
import traceback
from contextlib import contextmanager
from pathlib import Path
from typing import Any, Callable, Dict, Iterable, List, Optional, Sequence, Tuple

VERIF = Path(__file__).resolve().parents[2]
LEAN = VERIF / "lean"
REPO = Path(os.environ.get("PRIMAITE_REPO", "/repo"))
SRC = REPO / "src" / "primaite"
GEN = LEAN / "PrimaiteModel" / "Gen"
ALLOWED_AXIOMS = {"propext", "Classical.choice", "Quot.sound"}
FORBIDDEN = re.compile(r"\bsorry\b|\badmit\b|^\s*axiom\s|native_decide|bv_decide|implemented_by|\bunsafe\s|maxHeartbeats\s+0\b", re.M)

TRUSTED_BASE = [
    "Lean 4.33.0 kernel; axioms allowed: propext, Classical.choice, Quot.sound (audited by #print axioms each run); "
    "no native_decide, no bv_decide, no sorry/admit, no axioms of our own",
    "extractors under harness/extract (Python ast -> Lean tables in PrimaiteModel/Gen), trusted to translate the shapes they accept",
    "correspondence rigs under harness/rigs, their canonicalisers, and the Lean drivers' line parsing",
    "modelled, not verified: CPython/pydantic semantics, ipaddress, gymnasium.spaces, numpy/random samplers, float arithmetic",
]


# ----------------------------------------------------------------------------------------------- PRNG
class Rng:
    """SplitMix64; every random choice of a run derives from one state seeded by VERIF_SEED."""

    M = (1 << 64) - 1

    def __init__(self, seed: int):
        self.s = seed & self.M

    def next(self) -> int:
        self.s = (self.s + 0x9E3779B97F4A7C15) & self.M
        z = self.s
        z = ((z ^ (z >> 30)) * 0xBF58476D1CE4E5B9) & self.M
        z = ((z ^ (z >> 27)) * 0x94D049BB133111EB) & self.M
        return z ^ (z >> 31)

    def below(self, n: int) -> int:
        return self.next() % n if n > 0 else 0

    def range(self, lo: int, hi: int) -> int:
        """inclusive"""
        return lo + self.below(hi - lo + 1)

    def choice(self, xs: Sequence):
        return xs[self.below(len(xs))]

    def chance(self, num: int, den: int) -> bool:
        return self.below(den) < num

    def shuffle(self, xs: list) -> list:
        xs = list(xs)
        for i in range(len(xs) - 1, 0, -1):
            j = self.below(i + 1)
            xs[i], xs[j] = xs[j], xs[i]
        return xs

    def fork(self, tag: str) -> "Rng":
        h = int.from_bytes(hashlib.sha256(f"{self.s}:{tag}".encode()).digest()[:8], "big")
        return Rng(h)


# ----------------------------------------------------------------------------------------------- lock
@contextmanager
def lean_lock():
    """Serialise everything that writes Gen files or runs lake (concurrent checks share one build dir)."""
    fd = os.open(str(VERIF / ".lock"), os.O_CREAT | os.O_RDWR)
    try:
        fcntl.flock(fd, fcntl.LOCK_EX)
        yield
    finally:
        fcntl.flock(fd, fcntl.LOCK_UN)
        os.close(fd)


def sh(cmd: Sequence[str], cwd: Optional[Path] = None, timeout: int = 3600, input: Optional[str] = None) -> Tuple[int, str]:
    p = subprocess.run(list(cmd), cwd=str(cwd) if cwd else None, stdout=subprocess.PIPE, stderr=subprocess.STDOUT,
                       text=True, timeout=timeout, input=input)
    return p.returncode, p.stdout


# ----------------------------------------------------------------------------------------------- Lean
def write_if_changed(path: Path, text: str) -> bool:
    path.parent.mkdir(parents=True, exist_ok=True)
    if path.exists() and path.read_text() == text:
        return False
    path.write_text(text)
    return True


def strip_comments(src: str) -> str:
    # remove block comments (non-nested is enough for our files, but handle nesting anyway) and line comments
    out, i, depth = [], 0, 0
    while i < len(src):
        if src.startswith("/-", i):
            depth += 1
            i += 2
        elif depth and src.startswith("-/", i):
            depth -= 1
            i += 2
        elif depth:
            if src[i] == "\n":
                out.append("\n")
            i += 1
        elif src.startswith("--", i):
            while i < len(src) and src[i] != "\n":
                i += 1
        else:
            out.append(src[i])
            i += 1
    return "".join(out)


def theorems_of(module: str) -> List[str]:
    """Fully qualified names of every `theorem` in a module file (single-level `namespace` tracking)."""
    path = LEAN / (module.replace(".", "/") + ".lean")
    src = strip_comments(path.read_text())
    ns: List[str] = []
    names = []
    for line in src.splitlines():
        m = re.match(r"\s*namespace\s+(\S+)", line)
        if m:
            ns.append(m.group(1))
            continue
        m = re.match(r"\s*end\s+(\S+)\s*$", line)
        if m and ns and ns[-1] == m.group(1):
            ns.pop()
            continue
        m = re.match(r"\s*(?:private\s+|protected\s+)?theorem\s+([^\s:({\[]+)", line)
        if m:
            names.append(".".join(ns + [m.group(1)]))
    return names


def forbidden_tokens() -> List[str]:
    hits = []
    for d in (LEAN / "PrimaiteModel", LEAN / "Drivers"):
        for f in sorted(d.rglob("*.lean")):
            body = strip_comments(f.read_text())
            for m in FORBIDDEN.finditer(body):
                ln = body.count("\n", 0, m.start()) + 1
                hits.append(f"{f.relative_to(LEAN)}:{ln}: {m.group(0).strip()}")
    return hits


def sync_lake_files() -> None:
    """lakefile.toml and the library root are generated: one `lean_exe drv_cXX` per Drivers/CXX.lean, and a root module
    importing every Model/Lemmas/Gen/Props file that exists."""
    exes = sorted(f.stem for f in (LEAN / "Drivers").glob("*.lean"))
    toml = 'name = "PrimaiteModel"\nversion = "0.1.0"\ndefaultTargets = ["PrimaiteModel"]\n\n[[lean_lib]]\nname = "PrimaiteModel"\n\n[[lean_lib]]\nname = "Drivers"\n'
    for e in exes:
        toml += f'\n[[lean_exe]]\nname = "drv_{e.lower()}"\nroot = "Drivers.{e}"\n'
    write_if_changed(LEAN / "lakefile.toml", toml)
    mods = []
    for sub in ("Model", "Lemmas", "Gen", "Props"):
        for f in sorted((LEAN / "PrimaiteModel" / sub).glob("*.lean")):
            mods.append(f"import PrimaiteModel.{sub}.{f.stem}")
    write_if_changed(LEAN / "PrimaiteModel.lean", "\n".join(mods) + "\n")


def all_driver_exes() -> List[str]:
    return sorted("drv_" + f.stem.lower() for f in (LEAN / "Drivers").glob("*.lean"))


def lake_build(targets: Sequence[str], clean: bool = False) -> Tuple[bool, str]:
    sync_lake_files()
    if clean:
        sh(["lake", "clean"], cwd=LEAN)
    rc, out = sh(["lake", "build", *targets], cwd=LEAN, timeout=3000)
    return rc == 0, out


def audit_axioms(modules: Sequence[str], tag: str) -> Tuple[Dict[str, List[str]], str]:
    """`#print axioms` for every theorem of the given modules. Returns name -> axioms, raw output."""
    names: List[str] = []
    for m in modules:
        names += theorems_of(m)
    text = "".join(f"import {m}\n" for m in modules) + "".join(f"#print axioms {n}\n" for n in names)
    f = LEAN / f"_audit_{tag}.lean"
    f.write_text(text)
    try:
        rc, out = sh(["lake", "env", "lean", f.name], cwd=LEAN, timeout=1200)
    finally:
        try:
            f.unlink()
        except FileNotFoundError:
            pass
    res: Dict[str, List[str]] = {}
    flat = re.sub(r"\s+", " ", out)
    for m in re.finditer(r"'([^']+)' depends on axioms: \[([^\]]*)\]", flat):
        res[m.group(1)] = [a.strip() for a in m.group(2).split(",") if a.strip()]
    for m in re.finditer(r"'([^']+)' does not depend on any axioms", flat):
        res[m.group(1)] = []
    for n in names:
        res.setdefault(n, ["<not-reported>"])
    return res, out


def run_driver(exe: str, lines: Iterable[str], timeout: int = 1200) -> List[str]:
    """Pipe protocol lines through a compiled driver (built beforehand by Ctx.prove)."""
    data = "\n".join(lines) + "\n"
    p = subprocess.run([str(LEAN / ".lake" / "build" / "bin" / exe)], input=data, stdout=subprocess.PIPE,
                       stderr=subprocess.PIPE, text=True, timeout=timeout)
    if p.returncode != 0:
        raise RuntimeError(f"driver {exe} failed rc={p.returncode}: {p.stderr[:2000]}")
    return p.stdout.splitlines()


# ----------------------------------------------------------------------------------------------- findings
def load_findings() -> List[dict]:
    out: List[dict] = []
    f = VERIF / "known_findings.json"
    if f.exists():
        out += json.loads(f.read_text())["findings"]
    for g in sorted((VERIF / "findings").glob("*.json")):  # per-property files written while a property is being built
        out += json.loads(g.read_text())["findings"]
    return out


def sig_matches(signature: dict, sig: dict) -> bool:
    """A finding's signature is a set of key -> value (or list of allowed values) that the violation's sig must carry."""
    for k, v in signature.items():
        if k not in sig:
            return False
        if isinstance(v, list):
            if sig[k] not in v:
                return False
        elif sig[k] != v:
            return False
    return True


# ----------------------------------------------------------------------------------------------- context
class Broken(Exception):
    pass


class Ctx:
    def __init__(self, prop: str, tier: str, seed: int):
        self.prop, self.tier, self.seed = prop, tier, seed
        self.rng = Rng(seed)
        self.t0 = time.time()
        self.cov: Dict[str, Any] = {"samples": [], "evaluations": 0, "traces_validated_against_impl": 0}
        self.obligations: List[dict] = []  # {name, kind, ok, detail}
        self.violations: List[dict] = []   # {sig, what, replay}
        self.notes: List[str] = []
        self._distinct: set = set()
        self.hist: Dict[str, int] = {}
        self.checker_cmds: List[str] = []
        self.assumptions: List[str] = []

    # -- bookkeeping
    @property
    def thorough(self) -> bool:
        return self.tier == "thorough"

    def scale(self, quick: int, thorough: int) -> int:
        return thorough if self.thorough else quick

    def oblige(self, name: str, kind: str, ok: bool, detail: str = "") -> bool:
        self.obligations.append({"name": name, "kind": kind, "ok": bool(ok), "detail": detail[-3000:]})
        return bool(ok)

    def count(self, key: str, n: int = 1):
        self.hist[key] = self.hist.get(key, 0) + n

    def case(self, canonical: Any, nontrivial: bool):
        """Record one evaluated case; distinct non-trivial cases are counted by hash of their canonical form."""
        self.cov["evaluations"] += 1
        if nontrivial:
            self._distinct.add(hashlib.sha1(json.dumps(canonical, sort_keys=True, default=str).encode()).hexdigest())

    def sample(self, s: Any, cap: int = 6):
        if len(self.cov["samples"]) < cap:
            self.cov["samples"].append(s)

    def violation(self, sig: dict, what: str, replay: dict):
        self.violations.append({"sig": sig, "what": what, "replay": replay})

    # -- translator tie
    def extract(self, name: str, fn: Callable[[], str]) -> bool:
        """Run one extractor and (re)write Gen/<name>.lean. An extractor that cannot recognise the source raises."""
        try:
            text = fn()
        except Exception as e:  # unrecognised shape: broken tie, reported, then searched
            self.oblige(f"extract:{name}", "extractor", False, f"{type(e).__name__}: {e}")
            text = f"-- extractor {name} failed: {type(e).__name__}\nnamespace Primaite.Gen\ndef {name}_unrecognised : Unit := ()\nend Primaite.Gen\n"
            write_if_changed(GEN / f"{name}.lean", text)
            return False
        write_if_changed(GEN / f"{name}.lean", "-- REGENERATED from /repo on every run by harness/extract; do not edit\n" + text)
        self.oblige(f"extract:{name}", "extractor", True)
        return True

    # -- proofs
    def prove(self, modules: Sequence[str], exes: Sequence[str] = (), clean: bool = False, leanchecker: bool = False) -> bool:
        """Build the property modules (+ drivers), audit axioms of every theorem, scan for forbidden tokens."""
        cmd = "cd lean && lake build " + " ".join([*modules, *exes])
        self.checker_cmds.append(cmd)
        ok, out = lake_build([*modules, *exes], clean=clean)
        if not ok:
            # find which theorems failed: lean reports errors with file:line; map to nearest preceding theorem
            self.oblige("lake-build:" + ",".join(modules), "build", False, out)
            for m in modules:
                for n in self._failed_theorems(m, out):
                    self.oblige(n, "theorem", False, "does not check")
            return False
        self.oblige("lake-build:" + ",".join(modules), "build", True)
        axioms, raw = audit_axioms(modules, self.prop)
        self.cov.setdefault("axioms", {})
        allok = True
        for n, ax in axioms.items():
            good = set(ax) <= ALLOWED_AXIOMS
            allok &= good
            self.oblige(n, "theorem", good, "" if good else f"axioms {ax}")
            self.cov["axioms"][n] = ax
        hits = forbidden_tokens()
        allok &= self.oblige("no-sorry-axiom-native_decide", "audit", not hits, "; ".join(hits))
        if leanchecker:
            cmd2 = "cd lean && lake env leanchecker " + " ".join(modules)
            self.checker_cmds.append(cmd2)
            rc, out2 = sh(["lake", "env", "leanchecker", *modules], cwd=LEAN, timeout=3000)
            allok &= self.oblige("leanchecker:" + ",".join(modules), "recheck", rc == 0, out2)
        return allok

    def _failed_theorems(self, module: str, out: str) -> List[str]:
        path = LEAN / (module.replace(".", "/") + ".lean")
        rel = str(path.relative_to(LEAN))
        lines = path.read_text().splitlines()
        failed = []
        for m in re.finditer(re.escape(rel) + r":(\d+):\d+", out):
            if "error" not in out[max(0, m.start() - 10):m.start()]:
                continue
            ln = int(m.group(1))
            for i in range(min(ln, len(lines)) - 1, -1, -1):
                mm = re.match(r"\s*theorem\s+([^\s:({\[]+)", lines[i])
                if mm:
                    if mm.group(1) not in failed:
                        failed.append(mm.group(1))
                    break
        return failed

    # -- finish
    def finish(self) -> int:
        findings = [f for f in load_findings() if f["property"] == self.prop]
        open_f = [f for f in findings if f.get("status") == "open"]
        # status "observation": a recorded behaviour that an oracle of the rig flags although the PROPERTY AS STATED holds there (the
        # oracle is deliberately stronger than the property, e.g. "no protected DEVICE changes" where the property speaks of host B
        # only). A report matching its narrow signature is neither a violation nor a known finding: it is counted in the evidence.
        obs_f = [f for f in findings if f.get("status") == "observation"]
        out_lines: List[str] = []
        unlisted = []
        known_hit: Dict[str, dict] = {}
        obs_hit: Dict[str, int] = {}
        for v in self.violations:
            hit = next((f for f in open_f if sig_matches(f["signature"], v["sig"])), None)
            if hit:
                known_hit.setdefault(hit["id"], hit)
                continue
            ob = next((f for f in obs_f if sig_matches(f["signature"], v["sig"])), None)
            if ob:
                obs_hit[ob["id"]] = obs_hit.get(ob["id"], 0) + 1
            else:
                unlisted.append(v)
        self.cov["observations_matched"] = obs_hit
        for fid, f in known_hit.items():
            out_lines.append(f"KNOWN-FINDING: property={self.prop} {fid} {f['what']}")
        broken = [o for o in self.obligations if not o["ok"]]
        rc = 0
        (VERIF / "replays").mkdir(exist_ok=True)
        seen = set()
        for v in unlisted:
            key = json.dumps(v["sig"], sort_keys=True, default=str)
            if key in seen:
                continue
            seen.add(key)
            h = hashlib.sha1(json.dumps(v["replay"], sort_keys=True, default=str).encode()).hexdigest()[:10]
            path = VERIF / "replays" / f"{self.prop}-{h}.json"
            path.write_text(json.dumps({"property": self.prop, "what": v["what"], "sig": v["sig"], "replay": v["replay"]}, indent=1, default=str))
            out_lines.append(f"VIOLATION property={self.prop} replay={path}")
            rc = 1
        if broken and not unlisted:
            h = hashlib.sha1(json.dumps(broken, sort_keys=True).encode()).hexdigest()[:10]
            path = VERIF / "replays" / f"{self.prop}-unproved-{h}.json"
            path.write_text(json.dumps({"property": self.prop, "what": "proof obligation or correspondence no longer checks; "
                                        "search found no failing input", "broken": broken}, indent=1))
            out_lines.append(f"VIOLATION property={self.prop} replay={path} no-failing-input-found")
            rc = 1
        self._write_evidence(len(unlisted) + (1 if (broken and not unlisted) else 0), [f["id"] for f in known_hit.values()])
        for l in out_lines:
            print(l)
        if rc == 0:
            print(f"OK property={self.prop} tier={self.tier} seed={self.seed} obligations={len(self.obligations)} "
                  f"evaluations={self.cov['evaluations']} wall={time.time() - self.t0:.1f}s")
        else:
            for o in broken[:10]:
                print(f"  broken: {o['kind']} {o['name']}: {o['detail'][-400:]}")
            for v in unlisted[:5]:
                print(f"  violation: {v['what']}")
        sys.stdout.flush()
        return rc

    def _write_evidence(self, nviol: int, known: List[str]):
        cov = dict(self.cov)
        cov["obligations"] = len(self.obligations)
        cov["discharged"] = sum(1 for o in self.obligations if o["ok"])
        cov["checker_cmd"] = " && ".join(self.checker_cmds) or "none"
        cov["trusted_base"] = TRUSTED_BASE
        cov["distinct_nontrivial"] = len(self._distinct)
        cov.setdefault("rule", "")
        cov["histogram"] = dict(sorted(self.hist.items()))
        cov["obligation_list"] = [{k: o[k] for k in ("name", "kind", "ok")} for o in self.obligations]
        cov["undischarged"] = [o for o in self.obligations if not o["ok"]]
        cov["known_findings_reported"] = known
        cov["notes"] = self.notes
        ev = {
            "property_id": self.prop, "tier": self.tier, "seed": self.seed, "level": "proof", "coverage": cov,
            "assumptions": self.assumptions or TRUSTED_BASE, "wall_s": round(time.time() - self.t0, 2), "violations": nviol,
        }
        (VERIF / "evidence").mkdir(exist_ok=True)
        (VERIF / "evidence" / f"{self.prop}.json").write_text(json.dumps(ev, indent=1, default=str))


def shrink_ops(ops: List[Any], fails: Callable[[List[Any]], bool], budget: int = 200) -> List[Any]:
    """Delta-debug an operation list: drop chunks while the predicate still fails."""
    n = 2
    cur = list(ops)
    spent = 0
    while len(cur) >= 2 and spent < budget:
        chunk = max(1, len(cur) // n)
        reduced = False
        for i in range(0, len(cur), chunk):
            cand = cur[:i] + cur[i + chunk:]
            spent += 1
            if cand and fails(cand):
                cur = cand
                n = max(n - 1, 2)
                reduced = True
                break
            if spent >= budget:
                break
        if not reduced:
            if chunk == 1:
                break
            n = min(n * 2, len(cur))
    return cur
