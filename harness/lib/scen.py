"""Loading shipped scenarios and building environments/games with all file output switched off."""
from __future__ import annotations

import copy
from pathlib import Path
from typing import Dict, List

import yaml

from harness.lib.core import REPO

PKG = REPO / "src" / "primaite" / "config" / "_package_data"
TEST_CFG = REPO / "tests" / "assets" / "configs"

QUIET_IO = {"save_agent_actions": False, "save_step_metadata": False, "save_pcap_logs": False, "save_sys_logs": False,
            "save_agent_logs": False, "save_logs": False, "write_sys_log_to_terminal": False, "write_agent_log_to_terminal": False}


def load_cfg(path) -> Dict:
    cfg = yaml.safe_load(Path(path).read_text())
    cfg = copy.deepcopy(cfg)
    io = dict(cfg.get("io_settings") or {})
    io.update(QUIET_IO)
    cfg["io_settings"] = io
    return cfg


def shipped(names: List[str] = None) -> Dict[str, Path]:
    """name -> path of single-file scenarios shipped with the package (and the test-suite's assets)."""
    out = {}
    for d in (PKG, TEST_CFG):
        for f in sorted(d.glob("*.yaml")):
            out.setdefault(f.stem, f)
    if names:
        return {n: out[n] for n in names}
    return out


def make_env(cfg: Dict):
    from primaite.session.environment import PrimaiteGymEnv
    return PrimaiteGymEnv(env_config=copy.deepcopy(cfg))


def make_game(cfg: Dict):
    from primaite.game.game import PrimaiteGame
    return PrimaiteGame.from_config(copy.deepcopy(cfg))
