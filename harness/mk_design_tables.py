#!/usr/bin/env python3
"""Rewrite the generated blocks of DESIGN.md: the table of findings (from known_findings.json + `git log` of /repo) and the
table of seeded changes (from seeded/*/meta.json). Blocks are delimited by <!-- BEGIN:x --> / <!-- END:x -->."""
import json, re, subprocess
from pathlib import Path
V = Path(__file__).resolve().parents[1]
d = (V / "DESIGN.md").read_text()
kf = json.loads((V / "known_findings.json").read_text())["findings"]
log = subprocess.run("git -C /repo log --format='%h %s' 39ece76..HEAD", shell=True, stdout=subprocess.PIPE, text=True).stdout.strip().splitlines()
subj = {l.split()[0]: l.split(" ", 1)[1] for l in log}
by_subject = {v: k for k, v in subj.items()}

def main_commit(e):
    c = str(e.get("commit", ""))[:7]
    if c in subj:
        return c
    # commits made on builder branches were cherry-picked: find by subject fragment mentioned in `what`
    for h, s in subj.items():
        if c and c in s:
            return h
    return c

rows = []
for e in sorted(kf, key=lambda e: (e["status"] != "open", e["property"], e["id"])):
    what = re.sub(r"^fixed: property=\S+ \S* ?", "", e["what"]).replace("|", "/").replace("\n", " ")
    rows.append(f"| {e['id']} | {e['property']} | {e['status']} | {main_commit(e) if e['status'] == 'fixed' else '—'} | {what[:330]} |")
ft = ("| id | property | status | commit (as recorded by the builder; the commit on /repo main may be its cherry-pick) | what fails |\n|---|---|---|---|---|\n"
      + "\n".join(rows) + f"\n\n`fix:` commits on /repo main ({len(log)}):\n\n" + "\n".join(f"* `{l}`" for l in reversed(log)) + "\n")
srows = []
for m in sorted((V / "seeded").glob("*/meta.json")):
    j = json.loads(m.read_text())
    srows.append(f"| {m.parent.name} | {j.get('breaks_property', j.get('property'))} | {str(j.get('summary', ''))[:260].replace('|', '/')} | "
                 f"{str(j.get('needs', ''))[:200].replace('|', '/')} | {str(j.get('caught_by', ''))[:330].replace('|', '/')} |")
st = "| seeded change | property | what it changes | what it needs to manifest | which check catches it, and how |\n|---|---|---|---|---|\n" + "\n".join(srows) + "\n"

def put(d, name, text):
    b, e = f"<!-- BEGIN:{name} -->", f"<!-- END:{name} -->"
    if b not in d:
        raise SystemExit(f"marker {name} missing in DESIGN.md")
    return d[:d.index(b) + len(b)] + "\n" + text + d[d.index(e):]
# status table: one row per property
import glob
m = json.loads((V / "MANIFEST.json").read_text())
claimed = {c["property_id"]: c for c in m["checks"]}
srows2 = []
for l in (V / "properties.jsonl").read_text().splitlines():
    if not l.strip():
        continue
    pr = json.loads(l)
    pid = pr["id"]
    thms = partial = cex = 0
    for f in sorted((V / "lean" / "PrimaiteModel" / "Props").glob(f"{pid}*.lean")):
        txt = f.read_text()
        names = re.findall(r"^theorem\s+(" + pid + r"_[^\s:({\[]+)", txt, re.M)
        thms += len(names)
        partial += sum(1 for n in names if "partial" in n)
        cex += sum(1 for n in names if "counterexample" in n)
    ev = {}
    ef = V / "evidence" / f"{pid}.json"
    if ef.exists():
        ev = json.loads(ef.read_text())
    cov = ev.get("coverage", {})
    opens = [e["id"] for e in kf if e["property"] == pid and e["status"] == "open"]
    fixed = [e["id"] for e in kf if e["property"] == pid and e["status"] == "fixed"]
    srows2.append(f"| {pid} | {'claimed' if pid in claimed else 'not claimed'} | {thms} ({partial} partial, {cex} counterexample) | "
                  f"{cov.get('obligations', '—')} / {cov.get('discharged', '—')} | {cov.get('evaluations', '—')} ({ev.get('tier', '—')}) | "
                  f"{', '.join(opens) or '—'} | {', '.join(fixed) or '—'} |")
stt = ("| property | status | `Cxx_*` theorems | obligations / discharged (last committed run) | evaluations (tier) | open findings | fixed findings |\n"
       "|---|---|---|---|---|---|---|\n" + "\n".join(srows2) + "\n")
d = put(d, "status", stt)
d = put(d, "findings", ft)
d = put(d, "seeded", st)
(V / "DESIGN.md").write_text(d)
print("tables rewritten:", len(rows), "findings,", len(srows), "seeded changes")
